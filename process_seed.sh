#!/bin/bash
# ./process_seed.sh <src-seed-dir> <name> <property> [extra check ids...]
# 1. verifies the seed in the scratch worktree /tmp/mut-me (patch applies, builds, demo fails with it and passes without,
#    tests of the touched packages pass with it)  2. copies it to /verif/seeded/<name>/  3. runs the property's quick check(s)
#    against /repo with the patch applied (run_seed.sh restores /repo).  Prints a summary line; writes meta.json.
set -u
src="$1"; name="$2"; prop="$3"; shift 3
extra="$*"
export GOFLAGS=-mod=mod GOPROXY=off GOSUMDB=off GOTOOLCHAIN=local
W=/tmp/mut-me
[ -d $W ] || git -C /repo worktree add -q --detach $W HEAD
git -C $W checkout -q --detach $(git -C /repo rev-parse HEAD) 2>/dev/null
git -C $W checkout -- . ; git -C $W clean -fdq
demo="$src/demo_test.go"
pkgdir=$(head -3 "$demo" | grep -o 'x/[A-Za-z0-9_/]*\|app/[A-Za-z0-9_/]*\|types[A-Za-z0-9_/]*' | head -1 | sed 's:/*$::')
[ -d "$W/$pkgdir" ] || { echo "cannot find package dir for demo ($pkgdir)"; exit 2; }
cp "$demo" "$W/$pkgdir/zz_seed_demo_test.go"
testsel=$(grep -o 'Test[A-Za-z0-9_]*' "$demo" | sort -u)
suite=$(echo "$testsel" | grep -m1 'TestKeeperTestSuite\|TestSuite' || true)
method=$(grep -o 'func (s \*[A-Za-z]*) \(Test[A-Za-z0-9_]*\)' "$demo" | awk '{print $4}' | sed 's/(.*//' | head -1)
plain=$(grep -o '^func \(Test[A-Za-z0-9_]*\)(t \*testing.T)' "$demo" | sed 's/^func //; s/(.*//' | head -1)
runsel() {
  if [ -n "$method" ]; then
    (cd $W && go test -vet=off -count=1 ./$pkgdir -run 'Test.*Suite' -testify.m "^${method}\$" 2>&1 | tail -15)
  else
    (cd $W && go test -vet=off -count=1 ./$pkgdir -run "^${plain}\$" 2>&1 | tail -15)
  fi
}
echo "== demo without patch ($pkgdir $method$plain)"
o1=$(runsel); echo "$o1" | tail -3
echo "$o1" | grep -q "^ok" && clean_ok=1 || clean_ok=0
git -C $W apply "$(realpath $src/patch.diff)" || { echo "PATCH DOES NOT APPLY"; exit 2; }
echo "== demo with patch"
o2=$(runsel); echo "$o2" | tail -4
echo "$o2" | grep -q "^FAIL\|--- FAIL" && patched_fail=1 || patched_fail=0
rm -f "$W/$pkgdir/zz_seed_demo_test.go"
echo "== build + tests of touched packages with patch"
touched=$(grep '^+++ b/' $src/patch.diff | sed 's:+++ b/::' | xargs -n1 dirname | sort -u | sed 's:^:./:')
(cd $W && go build ./... 2>&1 | tail -3)
t=$( (cd $W && go test -vet=off -count=1 $touched 2>&1) | grep -v "no test files" | tail -8); echo "$t"
echo "$t" | grep -q "FAIL" && tests_ok=0 || tests_ok=1
git -C $W checkout -- . ; git -C $W clean -fdq
mkdir -p seeded/$name
cp $src/patch.diff seeded/$name/patch.diff
cp $demo seeded/$name/demo_test.go
[ -f $src/README.md ] && cp $src/README.md seeded/$name/README.md
echo "== my checks against /repo + patch"
res=$(cd /verif && ./run_seed.sh seeded/$name quick $prop $extra 2>&1)
echo "$res" | tail -12
caught=$(echo "$res" | grep -c "exit=1")
sigs=$(echo "$res" | grep -o "violation C[0-9L]* \[[a-z0-9_.]*\] [^:]*" | sort | uniq -c | sort -rn | head -4 | tr '\n' ';')
python3 - "$name" "$prop" "$clean_ok" "$patched_fail" "$tests_ok" "$caught" "$sigs" "$pkgdir" "$method$plain" "$extra" <<'PY'
import json,sys,os
name,prop,clean_ok,patched_fail,tests_ok,caught,sigs,pkgdir,test,extra=sys.argv[1:]
readme=''
p=f'/verif/seeded/{name}/README.md'
if os.path.exists(p): readme=open(p).read()
meta={"name":name,"property":prop,"source":"fresh sub-agent, given only the property record and a scratch worktree",
 "demo":{"package_dir":pkgdir,"test":test,"passes_without_patch":clean_ok=="1","fails_with_patch":patched_fail=="1"},
 "existing_tests_of_touched_packages_pass_with_patch":tests_ok=="1",
 "checks_run":[prop]+extra.split(),"caught_by_quick":caught!="0","violation_signatures":sigs,
 "needs_to_manifest":"see README.md (written by the seeding agent)"}
json.dump(meta,open(f'/verif/seeded/{name}/meta.json','w'),indent=1)
print("SUMMARY",name,"demo_ok" if clean_ok=="1" and patched_fail=="1" else "DEMO_PROBLEM","tests_ok" if tests_ok=="1" else "TESTS_FAIL","CAUGHT" if caught!="0" else "MISSED",sigs[:200])
PY
