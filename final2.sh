#!/bin/bash
# after final.sh: the checks that exercise x/liquidity again on the tree with fix 700e7c5, under VERIF_SEED=1, and C06 thorough
cd "$(dirname "$0")"
while ! grep -q "FINAL DONE" /tmp/final_q0.log 2>/dev/null; do sleep 30; done
VERIF_SEED=1 ./sweep.sh quick C04 C05 C06 C07 C12 C15 C16 C19 C20 > /tmp/final2_q1.log 2>&1
./sweep.sh thorough C06 > /tmp/final2_thorough.log 2>&1
echo FINAL2 DONE >> /tmp/final2_thorough.log
