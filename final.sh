#!/bin/bash
# final validation on the unchanged tree: quick tier under VERIF_SEED=1 (what the acceptance harness exports), the thorough
# tier for the checks whose code changed since the last full thorough sweep, quick under another PRNG value, the rest of the
# thorough tier while time remains, and the quick tier under the default value last (so that the committed evidence files
# come from the command run on every change)
cd "$(dirname "$0")"
VERIF_SEED=1 ./sweep.sh quick > /tmp/final_q1.log 2>&1
./sweep.sh thorough C18 C01 C06 C09 C15 > /tmp/final_thorough.log 2>&1
VERIF_SEED=7 ./sweep.sh quick > /tmp/final_q7.log 2>&1
./sweep.sh thorough C02 C10 C12 C07 >> /tmp/final_thorough.log 2>&1
./sweep.sh quick > /tmp/final_q0.log 2>&1
echo FINAL DONE >> /tmp/final_q0.log
