#!/bin/bash
# final validation on the unchanged tree: quick tier under three PRNG values, then the thorough tier, then the quick tier
# again under the default value (so that the committed evidence files come from the command run on every change)
cd "$(dirname "$0")"
VERIF_SEED=1 ./sweep.sh quick > /tmp/final_q1.log 2>&1
VERIF_SEED=7 ./sweep.sh quick > /tmp/final_q7.log 2>&1
./sweep.sh thorough > /tmp/final_thorough.log 2>&1
./sweep.sh quick > /tmp/final_q0.log 2>&1
echo FINAL DONE >> /tmp/final_q0.log
