#!/usr/bin/env python3
# Generates MANIFEST.json from the table below (kept in one place so that it stays valid).
import json
claimed = json.load(open('/verif/claims.json'))
props = [json.loads(l) for l in open('/verif/properties.jsonl')]
checks=[]; na=[]
for p in props:
    pid=p['id']
    if pid in claimed['checks']:
        c=claimed['checks'][pid]
        checks.append({
          "property_id": pid,
          "quick_cmd": f"./check {pid} quick",
          "thorough_cmd": f"./check {pid} thorough",
          "evidence_file": f"/verif/evidence/{pid}.json",
          "replay_cmd_template": f"./check {pid} --replay {{path}}",
          "engine": "comdexsim",
          "level_claimed": {"category": c.get("level","exploration"), "text": c["text"], "design_ref": c.get("design_ref","DESIGN.md §6 "+pid)},
          "level_note": c["note"],
          "technique": c.get("technique","deterministic simulation with fault injection: seeded whole-app simulation, per-event oracles, minimised replay"),
        })
    else:
        na.append({"property_id": pid, "reason": claimed['not_applicable'].get(pid, "check not built yet in this session; no claim made")})
m={
 "version":1,
 "setup_cmd":"./check build",
 "hooks":{"guard":"verif","enable":"go build -tags verif (done by ./check on every call)","baseline_off_cmd":"cd /repo && go test -mod=mod -json -vet=off -count=1 -timeout 25m ./...","source_commits":claimed.get("hook_commits",[]),"add_only":True},
 "engines":[{"name":"comdexsim","path":"/verif/sim","serves_properties":sorted(claimed['checks'].keys()),"kind_free_text":"deterministic whole-application simulator (Go): seeded scheduler over ABCI, simulated clock, band-oracle packet transport with fates, gas-meter store-fault injection, crash/restart and export/import replicas, per-property oracles, ddmin minimiser, replay files"}],
 "checks":checks,
 "notes":claimed.get("notes",""),
 "not_applicable":na,
}
json.dump(m,open('/verif/MANIFEST.json','w'),indent=1)
print("claimed",len(checks),"not claimed",len(na))
