#!/bin/bash
# ./process_seed2.sh <src-seed-dir> <name> <property> [extra check ids...]
# Like process_seed.sh, but everything (demo verification AND the simulator checks) runs against the scratch worktree
# /tmp/mut-me, so /repo stays untouched and other runs against /repo can go on. The checks are run from a scratch copy of
# /verif given by VDIR (default /tmp/vdev; must hold the same sim/ sources) so that /verif/evidence is not overwritten.
set -u
src="$1"; name="$2"; prop="$3"; shift 3
extra="$*"
VDIR=${VDIR:-/tmp/vdev}
# scratch copy of /verif (so that /verif/evidence and /verif/replays are left alone); created on first use, remove it afterwards
[ -d "$VDIR" ] || { mkdir -p "$VDIR" && rsync -a --exclude .git --exclude replays --exclude bin /verif/ "$VDIR"/; }
export GOFLAGS=-mod=mod GOPROXY=off GOSUMDB=off GOTOOLCHAIN=local
W=${W:-/tmp/mut-me}
[ -d $W ] || git -C /repo worktree add -q --detach $W HEAD
git -C $W checkout -q --detach $(git -C /repo rev-parse HEAD) 2>/dev/null
git -C $W checkout -- . ; git -C $W clean -fdq
demo="$src/demo_test.go"
pkgdir=$(head -3 "$demo" | grep -o 'x/[A-Za-z0-9_/]*\|app/[A-Za-z0-9_/]*\|types[A-Za-z0-9_/]*' | head -1 | sed 's:/*$::')
[ -d "$W/$pkgdir" ] || { echo "cannot find package dir for demo ($pkgdir)"; exit 2; }
cp "$demo" "$W/$pkgdir/zz_seed_demo_test.go"
method=$(grep -o 'func (s \*[A-Za-z]*) \(Test[A-Za-z0-9_]*\)' "$demo" | awk '{print $4}' | sed 's/(.*//' | head -1)
[ -z "$method" ] && method=$(grep -o 'func (suite \*[A-Za-z]*) \(Test[A-Za-z0-9_]*\)' "$demo" | awk '{print $4}' | sed 's/(.*//' | head -1)
plain=$(grep -o '^func \(Test[A-Za-z0-9_]*\)(t \*testing.T)' "$demo" | sed 's/^func //; s/(.*//' | head -1)
runsel() {
  if [ -n "$method" ]; then
    (cd $W && go test -vet=off -count=1 ./$pkgdir -run 'Test.*Suite' -testify.m "^${method}\$" 2>&1 | tail -15)
  else
    (cd $W && go test -vet=off -count=1 ./$pkgdir -run "^${plain}\$" 2>&1 | tail -15)
  fi
}
echo "== demo without patch ($pkgdir $method$plain)"
o1=$(runsel); echo "$o1" | tail -3
echo "$o1" | grep -q "^ok" && clean_ok=1 || clean_ok=0
git -C $W apply "$(realpath $src/patch.diff)" || { echo "PATCH DOES NOT APPLY"; exit 2; }
echo "== demo with patch"
o2=$(runsel); echo "$o2" | tail -4
echo "$o2" | grep -q "^FAIL\|--- FAIL" && patched_fail=1 || patched_fail=0
rm -f "$W/$pkgdir/zz_seed_demo_test.go"
echo "== build + tests of touched packages with patch"
touched=$(grep '^+++ b/' $src/patch.diff | sed 's:+++ b/::' | xargs -n1 dirname | sort -u | sed 's:^:./:')
(cd $W && go build ./... 2>&1 | tail -3)
t=$( (cd $W && go test -vet=off -count=1 $touched 2>&1) | grep -v "no test files" | tail -8); echo "$t"
echo "$t" | grep -q "FAIL" && tests_ok=0 || tests_ok=1
mkdir -p /verif/seeded/$name
cp $src/patch.diff /verif/seeded/$name/patch.diff
cp $demo /verif/seeded/$name/demo_test.go
[ -f $src/README.md ] && cp $src/README.md /verif/seeded/$name/README.md
echo "== simulator checks against the scratch worktree + patch (sources: $VDIR/sim)"
res=""
for id in $prop $extra; do
  out=$(cd $VDIR && REPO=$W ./check "$id" quick 2>&1); rc=$?
  res="$res
$(echo "$out" | egrep "^runs=|^OK|^VIOLATION|^violation|vacuous|BUILD FAILED" | cut -c1-300 | sort | uniq -c | sort -rn | head -6)
SEED $name check=$id tier=quick exit=$rc"
done
echo "$res" | tail -14
git -C $W checkout -- . ; git -C $W clean -fdq
caught=$(echo "$res" | grep -c "exit=1")
broken=$(echo "$res" | grep -c "exit=2")
sigs=$(echo "$res" | grep -o "violation C[0-9L]* \[[a-z0-9_.]*\] [^:]*" | sort | uniq -c | sort -rn | head -4 | tr '\n' ';')
python3 - "$name" "$prop" "$clean_ok" "$patched_fail" "$tests_ok" "$caught" "$sigs" "$pkgdir" "$method$plain" "$extra" "$broken" <<'PY'
import json,sys
name,prop,clean_ok,patched_fail,tests_ok,caught,sigs,pkgdir,test,extra,broken=sys.argv[1:]
meta={"name":name,"property":prop,"source":"fresh sub-agent (wave 2), given only the property record and a scratch worktree",
 "demo":{"package_dir":pkgdir,"test":test,"passes_without_patch":clean_ok=="1","fails_with_patch":patched_fail=="1"},
 "existing_tests_of_touched_packages_pass_with_patch":tests_ok=="1",
 "checks_run":[prop]+extra.split(),"caught_by_quick":caught!="0","check_exit_2":broken!="0","violation_signatures":sigs,
 "needs_to_manifest":"see README.md (written by the seeding agent)"}
json.dump(meta,open(f'/verif/seeded/{name}/meta.json','w'),indent=1)
print("SUMMARY",name,"demo_ok" if clean_ok=="1" and patched_fail=="1" else "DEMO_PROBLEM","tests_ok" if tests_ok=="1" else "TESTS_FAIL","CAUGHT" if caught!="0" else ("EXIT2" if broken!="0" else "MISSED"),sigs[:200])
PY
