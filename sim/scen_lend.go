package main

import (
	"fmt"
	"math/big"
	"sort"

	sdk "github.com/cosmos/cosmos-sdk/types"

	auctionsV2types "github.com/comdex-official/comdex/x/auctionsV2/types"
	lendtypes "github.com/comdex-official/comdex/x/lend/types"
	liqtypes "github.com/comdex-official/comdex/x/liquidationsV2/types"
)

// ---------- plan ----------

// LAsset is set-up data about one lendable asset and its cToken.
type LAsset struct {
	ID     uint64
	Name   string
	Denom  string
	Dec    sdk.Int
	OIdx   int // position among oracle-priced assets (index into band rates)
	CID    uint64
	CDenom string
}

// LPool is set-up data about one lending pool.
type LPool struct {
	ID     uint64
	Module string
	Assets []*LAsset // in AssetData order
	Main   *LAsset   // transit type 1
	T1     *LAsset   // transit type 2 (first bridge asset)
	T2     *LAsset   // transit type 3 (second bridge asset)
}

// LendPlan is set-up data of the lend scenario.
type LendPlan struct {
	AppID   uint64
	Assets  []*LAsset
	Pools   []*LPool
	Users   []int
	Bidders []int
	Keeper  int
	Steer   int
	Funder  int
}

const lendActors = 13

func (p *LendPlan) assetByID(id uint64) *LAsset {
	for _, a := range p.Assets {
		if a.ID == id {
			return a
		}
	}
	return nil
}

func (p *LendPlan) assetByDenom(d string) *LAsset {
	for _, a := range p.Assets {
		if a.Denom == d {
			return a
		}
	}
	return nil
}

func (p *LendPlan) pool(id uint64) *LPool {
	for _, x := range p.Pools {
		if x.ID == id {
			return x
		}
	}
	return nil
}

// ---------- configuration ----------

func drawLendConfig(r *Rng, cfg *Config) {
	k := cfg.Knobs
	k["n_users"] = r.Range(4, 8)
	k["twa_batch"] = []int64{1, 1, 2, 3}[r.Intn(4)]
	k["accepted_diff"] = []int64{20, 40, 100}[r.Intn(3)]
	k["path_mode"] = []int64{pathFlat, pathWalk, pathCrash, pathCrash, pathSaw, pathSaw, pathSpike}[r.Intn(7)]
	k["vol"] = r.Range(2, 25)
	k["pkt_fault"] = []int64{0, 0, 0, 30, 100}[r.Intn(5)]
	k["oog"] = []int64{0, 0, 0, 20}[r.Intn(4)]
	k["gap_profile"] = []int64{0, 1, 1, 2, 2, 3}[r.Intn(6)]
	k["extra_p1"] = int64(r.Intn(2))
	k["extra_p2"] = int64(r.Intn(2))
	k["dec_main1"] = []int64{6, 6, 8}[r.Intn(3)]
	k["dec_main2"] = []int64{6, 6, 8}[r.Intn(3)]
	k["dec_t1"] = []int64{6, 6, 8}[r.Intn(3)]
	k["dec_t2"] = []int64{6, 6, 6, 8}[r.Intn(4)]
	k["filler_apps"] = r.Range(0, 2)
	k["filler_asset"] = int64(r.Intn(2))
	k["liq_v2"] = 1
	if r.Chance(1, 10) {
		k["liq_v2"] = 0
	}
	k["liq_batch"] = []int64{1, 2, 3, 5, 200, 200}[r.Intn(6)]
	k["dutch_on"] = 1
	if r.Chance(1, 12) {
		k["dutch_on"] = 0
	}
	k["english_on"] = 1
	if r.Chance(1, 4) {
		k["english_on"] = 0
	}
	k["auction_secs"] = []int64{30, 120, 600, 3600, 7200}[r.Intn(5)]
	k["keeper_incentive"] = int64(r.Intn(3))
	k["min_usd_left"] = []int64{0, 100000, 1000000}[r.Intn(3)]
	k["emode"] = []int64{0, 0, 1, 2, 3}[r.Intn(5)]
	k["stable_mask"] = int64(r.Intn(16))
	k["isolated"] = 0
	if r.Chance(1, 8) {
		k["isolated"] = 1
	}
	k["base_zero"] = 0
	if r.Chance(1, 12) {
		k["base_zero"] = 1
	}
	k["reserve_funded"] = 1
	if r.Chance(1, 10) {
		k["reserve_funded"] = 0
	}
	k["app_reserve"] = int64(r.Intn(3)) // 0 none, 1 small, 2 ample
	k["small_cap"] = 0
	if r.Chance(1, 6) {
		k["small_cap"] = 1
	}
}

func lendRateChoice(r *Rng, xs ...string) sdk.Dec { return decStr(xs[r.Intn(len(xs))]) }

// ---------- set-up (block 1, keeper entry points) ----------

func setupLend(w *World) {
	cfg := &w.Cfg
	r := NewRng(MixSeed(cfg.Seed, "setup", 0))
	p := &LendPlan{}
	w.Lend = p
	ctx := w.Ctx()
	lk := w.App.LendKeeper

	fillers := [][2]string{{"cswap", "cswap"}, {"harbor", "hbr"}}
	for i := 0; i < int(cfg.K("filler_apps")); i++ {
		w.addApp(fillers[i][0], fillers[i][1])
	}
	p.AppID = w.addApp("commodo", "cmdo")

	oidx := 0
	mk := func(name, denom string, dec int) *LAsset {
		a := &LAsset{Name: name, Denom: denom, Dec: pow10(dec), OIdx: oidx}
		a.ID = w.addAsset(name, denom, a.Dec, true, false)
		oidx++
		p.Assets = append(p.Assets, a)
		return a
	}
	if cfg.KB("filler_asset") {
		w.addAsset("FILLER", "ufiller", pow10(6), false, false)
	}
	main1 := mk("CMDX", "ulcmdx", int(cfg.K("dec_main1")))
	t1 := mk("ATOM", "uatom", int(cfg.K("dec_t1")))
	t2 := mk("CMST", "ulcmst", int(cfg.K("dec_t2")))
	main2 := mk("OSMO", "uosmo", int(cfg.K("dec_main2")))
	var extra1, extra2 *LAsset
	if cfg.KB("extra_p1") {
		extra1 = mk("AKT", "uakt", 6)
	}
	if cfg.KB("extra_p2") {
		extra2 = mk("JUNO", "ujuno", 6)
	}
	for _, a := range p.Assets {
		a.CDenom = "uc" + a.Denom[1:]
		a.CID = w.addAsset("C"+a.Name, a.CDenom, a.Dec, false, false)
	}

	// interest-rate and risk parameters per asset, drawn per run
	type rp struct {
		uopt, base, s1, s2, sbase, ss1, ss2, ltv, thr, pen, bonus, rf sdk.Dec
		stable                                                      bool
	}
	params := map[uint64]rp{}
	for i, a := range p.Assets {
		x := rp{
			uopt:  lendRateChoice(r, "0.5", "0.65", "0.8", "0.9"),
			base:  lendRateChoice(r, "0.002", "0.002", "0.02", "0.1"),
			s1:    lendRateChoice(r, "0.04", "0.07", "0.1", "0.5"),
			s2:    lendRateChoice(r, "0.6", "1.25", "3", "10"),
			sbase: lendRateChoice(r, "0.01", "0.04", "0.2"),
			ss1:   lendRateChoice(r, "0.04", "0.1"),
			ss2:   lendRateChoice(r, "0.6", "2"),
			pen:   lendRateChoice(r, "0.025", "0.05", "0.1"),
			bonus: lendRateChoice(r, "0", "0.025", "0.05"),
			rf:    lendRateChoice(r, "0.1", "0.2", "0.5"),
		}
		if cfg.KB("base_zero") && i%2 == 0 {
			x.base = sdk.ZeroDec()
		}
		ltvPct := r.Range(40, 80)
		x.ltv = sdk.NewDecWithPrec(ltvPct, 2)
		x.thr = sdk.NewDecWithPrec(ltvPct+r.Range(1, 10), 2)
		x.stable = cfg.K("stable_mask")&(1<<uint(i%4)) != 0
		params[a.ID] = x
	}
	capOf := func(a *LAsset) sdk.Dec {
		if cfg.KB("small_cap") && r.Chance(1, 3) {
			return sdk.NewDec(r.Range(50_000, 5_000_000) * 1_000_000) // $50k .. $5m in micro-dollars
		}
		return sdk.NewDec(5_000_000_000_000_000_000)
	}
	ratesOf := func(a *LAsset) lendtypes.AssetRatesParams {
		x := params[a.ID]
		return lendtypes.AssetRatesParams{AssetID: a.ID, UOptimal: x.uopt, Base: x.base, Slope1: x.s1, Slope2: x.s2, EnableStableBorrow: x.stable,
			StableBase: x.sbase, StableSlope1: x.ss1, StableSlope2: x.ss2, Ltv: x.ltv, LiquidationThreshold: x.thr, LiquidationPenalty: x.pen,
			LiquidationBonus: x.bonus, ReserveFactor: x.rf, CAssetID: a.CID}
	}
	for _, a := range []*LAsset{t1, t2, extra1, extra2} {
		if a == nil {
			continue
		}
		if err := lk.AddAssetRatesParams(ctx, ratesOf(a)); err != nil {
			panic(err)
		}
	}
	mkPool := func(module, cname string, main, extra *LAsset) *LPool {
		pool := &LPool{Module: module, Main: main, T1: t1, T2: t2}
		as := []*LAsset{main, t1, t2}
		if extra != nil {
			as = append(as, extra)
		}
		// vary the order of the asset data
		for i := len(as) - 1; i > 0; i-- {
			j := r.Intn(i + 1)
			as[i], as[j] = as[j], as[i]
		}
		var data []*lendtypes.AssetDataPoolMapping
		for _, a := range as {
			tt := uint64(0)
			switch a {
			case main:
				tt = 1
			case t1:
				tt = 2
			case t2:
				tt = 3
			}
			data = append(data, &lendtypes.AssetDataPoolMapping{AssetID: a.ID, AssetTransitType: tt, SupplyCap: capOf(a)})
		}
		pool.Assets = as
		x := ratesOf(main)
		err := lk.AddAssetRatesPoolPairs(ctx, lendtypes.AssetRatesPoolPairs{AssetID: main.ID, UOptimal: x.UOptimal, Base: x.Base, Slope1: x.Slope1, Slope2: x.Slope2,
			EnableStableBorrow: x.EnableStableBorrow, StableBase: x.StableBase, StableSlope1: x.StableSlope1, StableSlope2: x.StableSlope2, Ltv: x.Ltv,
			LiquidationThreshold: x.LiquidationThreshold, LiquidationPenalty: x.LiquidationPenalty, LiquidationBonus: x.LiquidationBonus, ReserveFactor: x.ReserveFactor,
			CAssetID: main.CID, ModuleName: module, CPoolName: cname, AssetData: data, MinUsdValueLeft: uint64(r.Range(0, 1000000)),
			IsIsolated: cfg.KB("isolated") && main == main1})
		if err != nil {
			panic(fmt.Sprintf("add pool %s: %v", module, err))
		}
		pool.ID = lk.GetPoolID(ctx)
		p.Pools = append(p.Pools, pool)
		return pool
	}
	mkPool(lendtypes.ModuleAcc1, "CMDX-ATOM-CMST", main1, extra1)
	mkPool(lendtypes.ModuleAcc3, "OSMO-ATOM-CMST", main2, extra2)

	// e-mode on some pairs (higher LTV / threshold for the pair's collateral asset)
	if n := int(cfg.K("emode")); n > 0 {
		pairs := lk.GetLendPairs(ctx)
		var em []lendtypes.EModePairs
		seen := map[uint64]bool{}
		for i := 0; i < n && len(pairs) > 0; i++ {
			pr := pairs[r.Intn(len(pairs))]
			if seen[pr.AssetIn] {
				continue
			}
			seen[pr.AssetIn] = true
			base := params[pr.AssetIn]
			eltv := base.thr.Add(sdk.NewDecWithPrec(r.Range(1, 5), 2))
			ethr := eltv.Add(sdk.NewDecWithPrec(r.Range(1, 4), 2))
			em = append(em, lendtypes.EModePairs{PairID: pr.Id, ELtv: eltv, ELiquidationThreshold: ethr, ELiquidationPenalty: lendRateChoice(r, "0.01", "0.02", "0.05")})
		}
		if err := lk.AddEModePairs(ctx, lendtypes.EModePairsForProposal{EModePairs: em}); err != nil {
			panic(err)
		}
	}

	// oracle
	w.SetupBand(uint64(cfg.K("twa_batch")), cfg.K("accepted_diff"))
	w.Band.Prices = make([]uint64, oidx)
	for _, a := range p.Assets {
		if a.Name == "CMST" {
			w.Band.Prices[a.OIdx] = uint64(r.Range(950000, 1050000))
		} else {
			w.Band.Prices[a.OIdx] = uint64(r.Range(50000, 50000000)) // $0.05 .. $50
		}
	}

	// liquidation V2 + auctions V2 for the lend app
	w.App.NewliqKeeper.SetParams(ctx, liqtypes.NewParams(uint64(cfg.K("liq_batch"))))
	w.App.NewaucKeeper.SetAuctionParams(ctx, auctionsV2types.AuctionParams{
		AuctionDurationSeconds: uint64(cfg.K("auction_secs")), Step: decStr("0.1"),
		WithdrawalFee: sdk.ZeroDec(), ClosingFee: sdk.ZeroDec(),
		MinUsdValueLeft: uint64(cfg.K("min_usd_left")), BidFactor: decStr("0.01"),
		LiquidationPenalty: decStr("0.1"), AuctionBonus: sdk.ZeroDec(),
	})
	if cfg.K("liq_v2") != 0 {
		prem := []string{"1.05", "1.1", "1.2", "1.3"}[r.Intn(4)]
		disc := []string{"0.5", "0.7", "0.8", "0.9"}[r.Intn(4)]
		inc := []string{"0", "0.1", "0.5"}[cfg.K("keeper_incentive")]
		wl := liqtypes.LiquidationWhiteListing{
			AppId: p.AppID, Initiator: true, IsDutchActivated: cfg.KB("dutch_on"),
			DutchAuctionParam:   &liqtypes.DutchAuctionParam{Premium: decStr(prem), Discount: decStr(disc), DecrementFactor: sdk.NewInt(1)},
			IsEnglishActivated:  cfg.KB("english_on"),
			EnglishAuctionParam: &liqtypes.EnglishAuctionParam{DecrementFactor: sdk.NewInt(1)},
			KeeeperIncentive:    decStr(inc),
		}
		if err := w.App.NewliqKeeper.WhitelistLiquidation(ctx, wl); err != nil {
			panic(err)
		}
	}

	// actors
	nUsers := int(cfg.K("n_users"))
	for i := 0; i < nUsers; i++ {
		p.Users = append(p.Users, i)
	}
	p.Bidders = []int{nUsers, nUsers + 1}
	p.Keeper = nUsers + 2
	p.Steer = nUsers + 3
	p.Funder = nUsers + 4
	for i := 0; i <= p.Funder; i++ {
		var coins sdk.Coins
		for _, a := range p.Assets {
			n := r.Range(1000, 1000000)
			if i >= nUsers {
				n = 200_000_000
			}
			coins = coins.Add(sdk.NewCoin(a.Denom, a.Dec.MulRaw(n)))
		}
		w.Fund(w.Actors[i].Addr, coins)
	}
	w.touchModuleAccounts()
	t := newLendLiqTracker()
	w.X["lend.liq"] = t
	w.OnBlock = append(w.OnBlock, func(w *World) { t.observe(w, false) })
}

// tokensForUSD returns the amount of asset worth usd dollars at the generator-side start price.
func (w *World) lendTokensForUSD(a *LAsset, usd int64) sdk.Int {
	price := w.Band.Prices[a.OIdx] // micro-dollars per token
	if price == 0 {
		price = 1
	}
	n := new(big.Int).Mul(big.NewInt(usd), big.NewInt(1_000_000))
	n.Mul(n, a.Dec.BigInt())
	n.Quo(n, new(big.Int).SetUint64(price))
	return sdk.NewIntFromBigInt(n)
}

// seedLend runs after the oracle is warm (still set-up, unrecorded, deterministic): initial liquidity, reserves.
func seedLend(w *World) {
	if w.Panicked != "" {
		return
	}
	p := w.Lend
	cfg := &w.Cfg
	r := NewRng(MixSeed(cfg.Seed, "seed", 0))
	ctx := w.Ctx()
	lk := w.App.LendKeeper
	funder := w.Actors[p.Funder]
	steer := w.Actors[p.Steer]
	for _, pool := range p.Pools {
		for _, a := range pool.Assets {
			amt := w.lendTokensForUSD(a, r.Range(5_000, 80_000))
			// errors (supply cap in small-cap runs, inactive price) leave the pool thinner; that is a configuration, not a failure
			_ = lk.LendAsset(ctx, funder.Bech(), a.ID, sdk.NewCoin(a.Denom, amt), pool.ID, p.AppID)
		}
		// the utilisation-steering actor holds a large collateral position in the second bridge asset of every pool
		_ = lk.LendAsset(ctx, steer.Bech(), pool.T2.ID, sdk.NewCoin(pool.T2.Denom, w.lendTokensForUSD(pool.T2, r.Range(300_000, 900_000))), pool.ID, p.AppID)
	}
	if cfg.KB("reserve_funded") {
		for _, a := range p.Assets {
			_ = lk.FundReserveAcc(ctx, a.ID, funder.Bech(), sdk.NewCoin(a.Denom, w.lendTokensForUSD(a, r.Range(2_000, 20_000))))
		}
	}
	if k := cfg.K("app_reserve"); k > 0 {
		for _, a := range p.Assets {
			usd := r.Range(1, 50)
			if k == 2 {
				usd = r.Range(5_000, 50_000)
			}
			_ = w.App.NewliqKeeper.MsgAppReserveFundsFn(ctx, funder.Bech(), p.AppID, a.ID, sdk.NewCoin(a.Denom, w.lendTokensForUSD(a, usd)))
		}
	}
	if t, ok := w.X["lend.liq"].(*lendLiqTracker); ok {
		t.snapshot(w)
	}
}

// ---------- state readers used by generators ----------

func (w *World) lendUser(r *Rng) *Actor { return w.Actors[w.Lend.Users[r.Intn(len(w.Lend.Users))]] }

func (w *World) userLends(a *Actor) []lendtypes.LendAsset {
	ctx := w.Ctx()
	var out []lendtypes.LendAsset
	for _, m := range w.App.LendKeeper.GetUserTotalMappingData(ctx, a.Bech()) {
		if l, ok := w.App.LendKeeper.GetLend(ctx, m.LendId); ok {
			out = append(out, l)
		}
	}
	sort.Slice(out, func(i, j int) bool { return out[i].ID < out[j].ID })
	return out
}

func (w *World) userBorrows(a *Actor) []lendtypes.BorrowAsset {
	ctx := w.Ctx()
	var out []lendtypes.BorrowAsset
	for _, m := range w.App.LendKeeper.GetUserTotalMappingData(ctx, a.Bech()) {
		for _, id := range m.BorrowId {
			if b, ok := w.App.LendKeeper.GetBorrow(ctx, id); ok {
				out = append(out, b)
			}
		}
	}
	sort.Slice(out, func(i, j int) bool { return out[i].ID < out[j].ID })
	return out
}

// lendPrice returns the active TWA of an asset (micro-dollars per whole token).
func (w *World) lendPrice(id uint64) (uint64, bool) {
	twa, found := w.App.MarketKeeper.GetTwa(w.Ctx(), id)
	if found && twa.IsPriceActive && twa.Twa > 0 {
		return twa.Twa, true
	}
	return 0, false
}

// lendValue = amt * price / decimals as an exact rational (micro-dollars).
func (w *World) lendValue(a *LAsset, amt sdk.Int) (*big.Rat, bool) {
	p, ok := w.lendPrice(a.ID)
	if !ok {
		return nil, false
	}
	return new(big.Rat).SetFrac(new(big.Int).Mul(amt.BigInt(), new(big.Int).SetUint64(p)), a.Dec.BigInt()), true
}

func decRat(d sdk.Dec) *big.Rat { return new(big.Rat).SetFrac(d.BigInt(), oneE18) }

// lendMaxLoan: largest loan of pair.AssetOut that collateral amtIn of the pair's AssetIn supports at the LTV the borrow path applies
// (generator-side estimate; cross-pool uses the product with the first bridge asset's LTV).
func (w *World) lendMaxLoan(pair lendtypes.Extended_Pair, amtIn sdk.Int) (sdk.Int, bool) {
	p := w.Lend
	in, out := p.assetByID(pair.AssetIn), p.assetByID(pair.AssetOut)
	if in == nil || out == nil {
		return sdk.ZeroInt(), false
	}
	rs, ok := w.App.LendKeeper.GetAssetRatesParams(w.Ctx(), pair.AssetIn)
	if !ok {
		return sdk.ZeroInt(), false
	}
	ltv := rs.Ltv
	if pair.IsEModeEnabled {
		ltv = rs.ELtv
	}
	vin, ok1 := w.lendValue(in, amtIn)
	pout, ok2 := w.lendPrice(out.ID)
	if !ok1 || !ok2 {
		return sdk.ZeroInt(), false
	}
	v := new(big.Rat).Mul(vin, decRat(ltv))
	if pair.IsInterPool {
		for _, pool := range p.Pools {
			if pool.Main.ID == pair.AssetIn {
				if trs, ok := w.App.LendKeeper.GetAssetRatesParams(w.Ctx(), pool.T1.ID); ok {
					v.Mul(v, decRat(trs.Ltv))
				}
			}
		}
	}
	// loan = v * decOut / pout
	v.Mul(v, new(big.Rat).SetFrac(out.Dec.BigInt(), new(big.Int).SetUint64(pout)))
	q := new(big.Int).Quo(v.Num(), v.Denom())
	return sdk.NewIntFromBigInt(q), true
}

// minLoan: smallest loan worth one dollar.
func (w *World) lendMinLoan(out *LAsset) sdk.Int {
	pout, ok := w.lendPrice(out.ID)
	if !ok {
		return sdk.OneInt()
	}
	n := new(big.Int).Mul(big.NewInt(1_000_000), out.Dec.BigInt())
	n.Quo(n, new(big.Int).SetUint64(pout))
	return sdk.NewIntFromBigInt(n).AddRaw(1)
}

func (w *World) pairsFor(l lendtypes.LendAsset) []lendtypes.Extended_Pair {
	ctx := w.Ctx()
	m, ok := w.App.LendKeeper.GetAssetToPair(ctx, l.AssetID, l.PoolID)
	if !ok {
		return nil
	}
	var out []lendtypes.Extended_Pair
	for _, id := range m.PairID {
		if pr, ok := w.App.LendKeeper.GetLendPair(ctx, id); ok {
			out = append(out, pr)
		}
	}
	return out
}

func (w *World) borrowDebt(b lendtypes.BorrowAsset) sdk.Int {
	return b.AmountOut.Amount.Add(b.InterestAccumulated.TruncateInt())
}

// ---------- generators ----------

func lendGens() []OpGen {
	pickLend := func(w *World, r *Rng, a *Actor) (lendtypes.LendAsset, bool) {
		ls := w.userLends(a)
		if len(ls) == 0 {
			return lendtypes.LendAsset{}, false
		}
		return ls[r.Intn(len(ls))], true
	}
	pickBorrow := func(w *World, r *Rng, a *Actor) (lendtypes.BorrowAsset, bool) {
		bs := w.userBorrows(a)
		if len(bs) == 0 {
			return lendtypes.BorrowAsset{}, false
		}
		return bs[r.Intn(len(bs))], true
	}
	// pick a user that has what the op needs (a few tries), so that most generated txs are applicable
	withLend := func(w *World, r *Rng) (*Actor, lendtypes.LendAsset, bool) {
		for i := 0; i < 4; i++ {
			a := w.lendUser(r)
			if l, ok := pickLend(w, r, a); ok {
				return a, l, true
			}
		}
		return nil, lendtypes.LendAsset{}, false
	}
	withBorrow := func(w *World, r *Rng) (*Actor, lendtypes.BorrowAsset, bool) {
		for i := 0; i < 4; i++ {
			a := w.lendUser(r)
			if b, ok := pickBorrow(w, r, a); ok {
				return a, b, true
			}
		}
		return nil, lendtypes.BorrowAsset{}, false
	}
	loanFor := func(w *World, r *Rng, pair lendtypes.Extended_Pair, amtIn sdk.Int) sdk.Int {
		out := w.Lend.assetByID(pair.AssetOut)
		max, ok := w.lendMaxLoan(pair, amtIn)
		if !ok {
			return w.lendMinLoan(out)
		}
		switch r.Intn(6) {
		case 0:
			return posInt(perturb(r, max)) // LTV boundary
		case 1:
			return w.lendMinLoan(out).AddRaw(r.Range(-2, 2)) // one-dollar floor
		case 2:
			return posInt(max.MulRaw(r.Range(90, 99)).QuoRaw(100)) // close to the limit: liquidatable after a small move
		default:
			return posInt(max.MulRaw(r.Range(20, 95)).QuoRaw(100))
		}
	}
	return []OpGen{
		{"lend.lend", 12, func(w *World, r *Rng) *Event {
			a := w.lendUser(r)
			pool := w.Lend.Pools[r.Intn(len(w.Lend.Pools))]
			as := pool.Assets[r.Intn(len(pool.Assets))]
			bal := w.Bal(a.Addr, as.Denom)
			if !bal.IsPositive() {
				return nil
			}
			amt := bal.MulRaw(r.Range(1, 40)).QuoRaw(100)
			if r.Chance(1, 12) {
				amt = sdk.NewInt(r.Range(1, 1000))
			}
			app := w.Lend.AppID
			if r.Chance(1, 25) {
				app = uint64(r.Range(1, 4))
			}
			return w.TxEvent("lend.lend", a, &lendtypes.MsgLend{Lender: a.Bech(), AssetId: as.ID, Amount: sdk.NewCoin(as.Denom, posInt(amt)), PoolId: pool.ID, AppId: app})
		}},
		{"lend.deposit", 5, func(w *World, r *Rng) *Event {
			a, l, ok := withLend(w, r)
			if !ok {
				return nil
			}
			bal := w.Bal(a.Addr, l.AmountIn.Denom)
			if !bal.IsPositive() {
				return nil
			}
			amt := bal.MulRaw(r.Range(1, 30)).QuoRaw(100)
			if r.Chance(1, 8) {
				amt = sdk.OneInt()
			}
			return w.TxEvent("lend.deposit", a, &lendtypes.MsgDeposit{Lender: a.Bech(), LendId: l.ID, Amount: sdk.NewCoin(l.AmountIn.Denom, posInt(amt))})
		}},
		{"lend.withdraw", 9, func(w *World, r *Rng) *Event {
			a, l, ok := withLend(w, r)
			if !ok {
				return nil
			}
			var amt sdk.Int
			switch r.Intn(6) {
			case 0:
				amt = l.AvailableToBorrow // closes when nothing is pledged
			case 1:
				amt = l.AvailableToBorrow.AddRaw(r.Range(-2, 2))
			case 2:
				amt = l.AmountIn.Amount.AddRaw(r.Range(-1, 1)) // everything, including what is pledged
			case 3:
				amt = l.AvailableToBorrow.MulRaw(r.Range(101, 200)).QuoRaw(100)
			default:
				amt = l.AvailableToBorrow.MulRaw(r.Range(1, 90)).QuoRaw(100)
			}
			return w.TxEvent("lend.withdraw", a, &lendtypes.MsgWithdraw{Lender: a.Bech(), LendId: l.ID, Amount: sdk.NewCoin(l.AmountIn.Denom, posInt(amt))})
		}},
		{"lend.close", 3, func(w *World, r *Rng) *Event {
			a, l, ok := withLend(w, r)
			if !ok {
				return nil
			}
			return w.TxEvent("lend.close", a, &lendtypes.MsgCloseLend{Lender: a.Bech(), LendId: l.ID})
		}},
		{"lend.borrow", 16, func(w *World, r *Rng) *Event {
			a, l, ok := withLend(w, r)
			if !ok || !l.AvailableToBorrow.IsPositive() {
				return nil
			}
			pairs := w.pairsFor(l)
			if len(pairs) == 0 {
				return nil
			}
			pair := pairs[r.Intn(len(pairs))]
			if r.Chance(1, 3) { // prefer cross-pool pairs now and then (they are a minority of the list)
				for _, x := range pairs {
					if x.IsInterPool {
						pair = x
					}
				}
			}
			in, out := w.Lend.assetByID(pair.AssetIn), w.Lend.assetByID(pair.AssetOut)
			if in == nil || out == nil {
				return nil
			}
			amtIn := l.AvailableToBorrow.MulRaw(r.Range(5, 100)).QuoRaw(100)
			if r.Chance(1, 10) {
				amtIn = l.AvailableToBorrow.AddRaw(r.Range(-1, 1))
			}
			amtIn = posInt(amtIn)
			loan := loanFor(w, r, pair, amtIn)
			rs, _ := w.App.LendKeeper.GetAssetRatesParams(w.Ctx(), pair.AssetIn)
			stable := rs.EnableStableBorrow && r.Chance(1, 2)
			if r.Chance(1, 20) {
				stable = !stable
			}
			return w.TxEvent("lend.borrow", a, &lendtypes.MsgBorrow{Borrower: a.Bech(), LendId: l.ID, PairId: pair.Id, IsStableBorrow: stable,
				AmountIn: sdk.NewCoin(in.CDenom, amtIn), AmountOut: sdk.NewCoin(out.Denom, loan)})
		}},
		{"lend.borrow_alt", 6, func(w *World, r *Rng) *Event {
			a := w.lendUser(r)
			pool := w.Lend.Pools[r.Intn(len(w.Lend.Pools))]
			as := pool.Assets[r.Intn(len(pool.Assets))]
			bal := w.Bal(a.Addr, as.Denom)
			if !bal.IsPositive() {
				return nil
			}
			m, ok := w.App.LendKeeper.GetAssetToPair(w.Ctx(), as.ID, pool.ID)
			if !ok || len(m.PairID) == 0 {
				return nil
			}
			pair, ok := w.App.LendKeeper.GetLendPair(w.Ctx(), m.PairID[r.Intn(len(m.PairID))])
			if !ok {
				return nil
			}
			out := w.Lend.assetByID(pair.AssetOut)
			if out == nil {
				return nil
			}
			amtIn := posInt(bal.MulRaw(r.Range(1, 25)).QuoRaw(100))
			loan := loanFor(w, r, pair, amtIn)
			rs, _ := w.App.LendKeeper.GetAssetRatesParams(w.Ctx(), pair.AssetIn)
			return w.TxEvent("lend.borrow_alt", a, &lendtypes.MsgBorrowAlternate{Lender: a.Bech(), AssetId: as.ID, PoolId: pool.ID, AmountIn: sdk.NewCoin(as.Denom, amtIn),
				PairId: pair.Id, IsStableBorrow: rs.EnableStableBorrow && r.Chance(1, 3), AmountOut: sdk.NewCoin(out.Denom, loan), AppId: w.Lend.AppID})
		}},
		{"lend.deposit_borrow", 5, func(w *World, r *Rng) *Event {
			a, b, ok := withBorrow(w, r)
			if !ok {
				return nil
			}
			l, ok := w.App.LendKeeper.GetLend(w.Ctx(), b.LendingID)
			if !ok {
				return nil
			}
			amt := l.AvailableToBorrow.MulRaw(r.Range(1, 60)).QuoRaw(100)
			if r.Chance(1, 8) {
				amt = l.AvailableToBorrow.AddRaw(r.Range(-1, 1))
			}
			return w.TxEvent("lend.deposit_borrow", a, &lendtypes.MsgDepositBorrow{Borrower: a.Bech(), BorrowId: b.ID, Amount: sdk.NewCoin(b.AmountIn.Denom, posInt(amt))})
		}},
		{"lend.draw", 9, func(w *World, r *Rng) *Event {
			a, b, ok := withBorrow(w, r)
			if !ok {
				return nil
			}
			pair, ok := w.App.LendKeeper.GetLendPair(w.Ctx(), b.PairID)
			if !ok {
				return nil
			}
			out := w.Lend.assetByID(pair.AssetOut)
			if out == nil {
				return nil
			}
			amt := w.lendMinLoan(out)
			pr := pair
			pr.IsInterPool = false // the draw path checks the collateral asset's own LTV only
			if max, ok := w.lendMaxLoan(pr, b.AmountIn.Amount); ok {
				room := max.Sub(w.borrowDebt(b))
				switch r.Intn(4) {
				case 0:
					amt = perturb(r, room)
				case 1:
					amt = room.MulRaw(r.Range(90, 99)).QuoRaw(100)
				default:
					amt = room.MulRaw(r.Range(1, 90)).QuoRaw(100)
				}
			}
			return w.TxEvent("lend.draw", a, &lendtypes.MsgDraw{Borrower: a.Bech(), BorrowId: b.ID, Amount: sdk.NewCoin(b.AmountOut.Denom, posInt(amt))})
		}},
		{"lend.repay", 9, func(w *World, r *Rng) *Event {
			a, b, ok := withBorrow(w, r)
			if !ok {
				return nil
			}
			var amt sdk.Int
			switch r.Intn(7) {
			case 0:
				amt = b.InterestAccumulated.TruncateInt().AddRaw(r.Range(-1, 1)) // exactly the interest
			case 1:
				amt = w.borrowDebt(b) // exact total: delegates to close
			case 2:
				amt = w.borrowDebt(b).AddRaw(r.Range(-2, 2))
			case 3:
				amt = sdk.NewInt(r.Range(1, 50)) // within the reserve share of the interest
			default:
				amt = b.AmountOut.Amount.MulRaw(r.Range(1, 90)).QuoRaw(100)
			}
			return w.TxEvent("lend.repay", a, &lendtypes.MsgRepay{Borrower: a.Bech(), BorrowId: b.ID, Amount: sdk.NewCoin(b.AmountOut.Denom, posInt(amt))})
		}},
		{"lend.close_borrow", 3, func(w *World, r *Rng) *Event {
			a, b, ok := withBorrow(w, r)
			if !ok {
				return nil
			}
			return w.TxEvent("lend.close_borrow", a, &lendtypes.MsgCloseBorrow{Borrower: a.Bech(), BorrowId: b.ID})
		}},
		{"lend.repay_withdraw", 2, func(w *World, r *Rng) *Event {
			a, b, ok := withBorrow(w, r)
			if !ok {
				return nil
			}
			return w.TxEvent("lend.repay_withdraw", a, &lendtypes.MsgRepayWithdraw{Borrower: a.Bech(), BorrowId: b.ID})
		}},
		{"lend.calc", 10, func(w *World, r *Rng) *Event {
			a := w.lendUser(r)
			// half of the time repeat the previous caller: two triggers in one block when no block boundary fell in between
			if last, ok := w.X["lend.lastcalc"].(int); ok && r.Bool() && last < len(w.Actors) {
				a = w.Actors[last]
			}
			if len(w.userLends(a)) == 0 {
				return nil
			}
			w.X["lend.lastcalc"] = a.Idx
			return w.TxEvent("lend.calc", a, &lendtypes.MsgCalculateInterestAndRewards{Borrower: a.Bech()})
		}},
		{"lend.fund_module", 1, func(w *World, r *Rng) *Event {
			a := w.Actors[w.Lend.Funder]
			pool := w.Lend.Pools[r.Intn(len(w.Lend.Pools))]
			as := pool.Assets[r.Intn(len(pool.Assets))]
			return w.TxEvent("lend.fund_module", a, &lendtypes.MsgFundModuleAccounts{PoolId: pool.ID, AssetId: as.ID, Lender: a.Bech(), Amount: sdk.NewCoin(as.Denom, w.lendTokensForUSD(as, r.Range(1, 2000)))})
		}},
		{"lend.fund_reserve", 1, func(w *World, r *Rng) *Event {
			a := w.Actors[w.Lend.Funder]
			as := w.Lend.Assets[r.Intn(len(w.Lend.Assets))]
			return w.TxEvent("lend.fund_reserve", a, &lendtypes.MsgFundReserveAccounts{AssetId: as.ID, Lender: a.Bech(), Amount: sdk.NewCoin(as.Denom, w.lendTokensForUSD(as, r.Range(1, 2000)))})
		}},
		{"lend.steer", 10, lendSteer},
		{"liq.keeper_borrow", 7, func(w *World, r *Rng) *Event {
			bs := w.App.LendKeeper.GetAllBorrow(w.Ctx())
			if len(bs) == 0 {
				return nil
			}
			a := w.Actors[w.Lend.Keeper]
			id := bs[r.Intn(len(bs))].ID
			// prefer a borrow the tracker currently sees as clearly unsafe, half of the time
			if t, ok := w.X["lend.liq"].(*lendLiqTracker); ok && r.Chance(3, 4) {
				if ids := t.unsafeIDs(); len(ids) > 0 {
					id = ids[r.Intn(len(ids))]
				}
			}
			if r.Chance(1, 12) {
				id = uint64(r.Range(0, 60))
			}
			return w.TxEvent("liq.keeper_borrow", a, &liqtypes.MsgLiquidateInternalKeeperRequest{From: a.Bech(), LiqType: 1, Id: id})
		}},
		{"bid.dutch", 14, func(w *World, r *Rng) *Event {
			as := w.App.NewaucKeeper.GetAuctions(w.Ctx())
			var dutch []auctionsV2types.Auction
			for _, a := range as {
				if a.AuctionType {
					dutch = append(dutch, a)
				}
			}
			if len(dutch) == 0 {
				return nil
			}
			au := dutch[r.Intn(len(dutch))]
			b := w.Actors[w.Lend.Bidders[r.Intn(len(w.Lend.Bidders))]]
			var amt sdk.Int
			switch r.Intn(6) {
			case 0:
				amt = sdk.NewInt(r.Range(1, 1000))
			case 1, 2:
				amt = au.DebtToken.Amount
			case 3:
				amt = au.DebtToken.Amount.MulRaw(r.Range(101, 300)).QuoRaw(100)
			default:
				amt = au.DebtToken.Amount.MulRaw(r.Range(20, 99)).QuoRaw(100)
			}
			return w.TxEvent("bid.dutch", b, &auctionsV2types.MsgPlaceMarketBidRequest{AuctionId: au.AuctionId, Bidder: b.Bech(), Amount: sdk.NewCoin(au.DebtToken.Denom, posInt(amt))})
		}},
	}
}

// lendSteer is the utilisation-steering actor: it borrows / draws / repays one (pool, asset) so that the pool's utilisation lands
// at 0, just below / at / just above the configured optimum, or at a PRNG-chosen value.
func lendSteer(w *World, r *Rng) *Event {
	p := w.Lend
	a := w.Actors[p.Steer]
	ctx := w.Ctx()
	lk := w.App.LendKeeper
	pool := p.Pools[r.Intn(len(p.Pools))]
	// collateral: the steer actor's position in the pool's second bridge asset
	var coll *lendtypes.LendAsset
	for _, l := range w.userLends(a) {
		if l.PoolID == pool.ID && l.AssetID == pool.T2.ID {
			x := l
			coll = &x
		}
	}
	if coll == nil {
		return nil
	}
	// target asset: any other asset of the pool
	var cands []*LAsset
	for _, x := range pool.Assets {
		if x.ID != pool.T2.ID {
			cands = append(cands, x)
		}
	}
	tgt := cands[r.Intn(len(cands))]
	var pair lendtypes.Extended_Pair
	found := false
	for _, pr := range w.pairsFor(*coll) {
		if pr.AssetOut == tgt.ID && !pr.IsInterPool && pr.AssetOutPoolID == pool.ID {
			pair, found = pr, true
		}
	}
	if !found {
		return nil
	}
	st, ok := lk.GetAssetStatsByPoolIDAndAssetID(ctx, pool.ID, tgt.ID)
	rs, ok2 := lk.GetAssetRatesParams(ctx, tgt.ID)
	if !ok || !ok2 {
		return nil
	}
	B := st.TotalBorrowed.Add(st.TotalStableBorrowed)
	M := w.ModBal(pool.Module, tgt.Denom)
	tot := B.Add(M)
	if !tot.IsPositive() {
		return nil
	}
	var own *lendtypes.BorrowAsset
	for _, b := range w.userBorrows(a) {
		if b.PairID == pair.Id && !b.IsLiquidated {
			x := b
			own = &x
		}
	}
	// target utilisation in 1e-9 units
	const scale = 1_000_000_000
	uopt := rs.UOptimal.MulInt64(scale).TruncateInt64()
	var u int64
	switch r.Intn(8) {
	case 0:
		u = 0
	case 1:
		u = uopt
	case 2:
		u = uopt - []int64{1, 1000, 1_000_000, 10_000_000}[r.Intn(4)]
	case 3:
		u = uopt + []int64{1, 1000, 1_000_000, 10_000_000}[r.Intn(4)]
	case 4:
		u = r.Range(uopt, 990_000_000)
	default:
		u = r.Range(1, uopt)
	}
	want := tot.MulRaw(u).QuoRaw(scale)
	if r.Chance(1, 3) {
		want = want.AddRaw(r.Range(-1, 1)) // one unit around the target
	}
	d := want.Sub(B)
	switch {
	case u == 0 && own != nil:
		return w.TxEvent("lend.steer", a, &lendtypes.MsgCloseBorrow{Borrower: a.Bech(), BorrowId: own.ID})
	case d.IsPositive() && own == nil:
		amtIn := coll.AvailableToBorrow.MulRaw(r.Range(60, 100)).QuoRaw(100)
		if !amtIn.IsPositive() {
			return nil
		}
		if d.LT(w.lendMinLoan(tgt)) {
			d = w.lendMinLoan(tgt)
		}
		return w.TxEvent("lend.steer", a, &lendtypes.MsgBorrow{Borrower: a.Bech(), LendId: coll.ID, PairId: pair.Id, IsStableBorrow: false,
			AmountIn: sdk.NewCoin(pool.T2.CDenom, amtIn), AmountOut: sdk.NewCoin(tgt.Denom, d)})
	case d.IsPositive():
		return w.TxEvent("lend.steer", a, &lendtypes.MsgDraw{Borrower: a.Bech(), BorrowId: own.ID, Amount: sdk.NewCoin(tgt.Denom, d)})
	case d.IsNegative() && own != nil:
		pay := d.Neg()
		// a repayment first covers the accrued interest; add it so that the principal moves by the wanted amount
		pay = pay.Add(own.InterestAccumulated.TruncateInt())
		if pay.GTE(w.borrowDebt(*own)) {
			return w.TxEvent("lend.steer", a, &lendtypes.MsgCloseBorrow{Borrower: a.Bech(), BorrowId: own.ID})
		}
		return w.TxEvent("lend.steer", a, &lendtypes.MsgRepay{Borrower: a.Bech(), BorrowId: own.ID, Amount: sdk.NewCoin(tgt.Denom, posInt(pay))})
	}
	return nil
}

func init() {
	scenarios["lend"] = &Scenario{
		Name: "lend", NActors: lendActors, Draw: drawLendConfig,
		Setup: func(w *World) { setupLend(w); w.warmOracle(); seedLend(w) },
		Gens:  func(w *World) []OpGen { return lendGens() },
		PBlock: 230,
	}
}
