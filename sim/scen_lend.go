package main

// LendPlan is set-up data of the lend scenario.
type LendPlan struct{}
