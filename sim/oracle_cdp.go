package main

import (
	"fmt"
	"math/big"
	"sort"

	sdk "github.com/cosmos/cosmos-sdk/types"

	collectortypes "github.com/comdex-official/comdex/x/collector/types"
	vaulttypes "github.com/comdex-official/comdex/x/vault/types"
)

// ---------- shared helpers ----------

type prodKey struct{ app, ext uint64 }

// extInfo resolves an extended pair to (collateral asset, debt asset) from chain state.
func (w *World) extAssets(ext uint64) (in, out *AssetInfo, ok bool) {
	ctx := w.Ctx()
	ep, found := w.App.AssetKeeper.GetPairsVault(ctx, ext)
	if !found {
		return nil, nil, false
	}
	pair, found := w.App.AssetKeeper.GetPair(ctx, ep.PairId)
	if !found {
		return nil, nil, false
	}
	ai, f1 := w.App.AssetKeeper.GetAsset(ctx, pair.AssetIn)
	ao, f2 := w.App.AssetKeeper.GetAsset(ctx, pair.AssetOut)
	if !f1 || !f2 {
		return nil, nil, false
	}
	return &AssetInfo{ID: ai.Id, Name: ai.Name, Denom: ai.Denom, Decimals: ai.Decimals, Oracle: ai.IsOraclePriceRequired},
		&AssetInfo{ID: ao.Id, Name: ao.Name, Denom: ao.Denom, Decimals: ao.Decimals, Oracle: ao.IsOraclePriceRequired}, true
}

// lockedView summarises vaults that were seized and whose auction has not settled yet, per product.
type lockedView struct {
	coll      map[prodKey]sdk.Int // collateral still attributed to the product's totals
	principal map[prodKey]sdk.Int
	any       bool
}

// lockedProvider is filled in by the liquidation scenario code (both generations).
var lockedProvider func(w *World) lockedView

func (w *World) lockedVaults() lockedView {
	if lockedProvider != nil {
		return lockedProvider(w)
	}
	return lockedView{coll: map[prodKey]sdk.Int{}, principal: map[prodKey]sdk.Int{}}
}

func addTo(m map[prodKey]sdk.Int, k prodKey, v sdk.Int) {
	if cur, ok := m[k]; ok {
		m[k] = cur.Add(v)
	} else {
		m[k] = v
	}
}

func getOr0(m map[prodKey]sdk.Int, k prodKey) sdk.Int {
	if v, ok := m[k]; ok {
		return v
	}
	return sdk.ZeroInt()
}

// ---------- C01 ----------

type c01Oracle struct {
	reported    map[prodKey]bool
	staleStable map[uint64]bool // stable-mint vault ids reported as surviving the emergency redemption
}

// stableRedeemed: the app's emergency shutdown has moved the collateral of its stable-mint vaults to the redemption account.
func stableRedeemed(w *World, app uint64) bool {
	st, found := w.App.EsmKeeper.GetESMStatus(w.Ctx(), app)
	return found && st.Status && st.StableVaultRedemptionStatus
}

func (o *c01Oracle) ID() string                  { return "c01.custody" }
func (o *c01Oracle) Before(w *World, ev *Event) {}

func (o *c01Oracle) After(w *World, ev *Event, res Result) *Violation {
	if ev.Kind == "band_ack" || ev.Kind == "band_resp" {
		return nil
	}
	ctx := w.Ctx()
	vk := w.App.VaultKeeper
	vaults := vk.GetVaults(ctx)
	stables := vk.GetStableMintVaults(ctx)
	// (0) listed finding, terminal: under an executed emergency shutdown the auction update hook "re-opens" the vault of every
	// vault-initiated dutch auction whose round has ended, without moving the collateral back and without closing the auction
	// or the locked vault, and does so again in every following block. Nothing can be accounted for after that.
	for _, a := range w.App.NewaucKeeper.GetAuctions(ctx) {
		if !a.AuctionType || !w.esmOn(a.AppId) || !w.Hdr.Time.After(a.EndTime) {
			continue
		}
		lv, ok := w.App.NewliqKeeper.GetLockedVault(ctx, a.AppId, a.LockedVaultId)
		if !ok || lv.InitiatorType != "vault" {
			continue
		}
		for _, v := range vaults {
			if v.Owner == lv.Owner && v.AppId == a.AppId && v.ExtendedPairVaultID == lv.ExtendedPairId {
				return &Violation{Property: "C01", OracleID: "c01.custody", Signature: "esm_reopens_vault_of_live_auction_every_block",
					Detail: fmt.Sprintf("emergency shutdown is executed for app %d and the round of dutch auction %d (locked vault %d) has ended: auctionsV2.TriggerEsm credits vault %d of the owner with the auction's remaining collateral %s and debt %s, the coins stay in the auction account and the auction and locked vault stay live, so the same amounts are credited again in every block", a.AppId, a.AuctionId, lv.LockedVaultId, v.Id, a.CollateralToken, a.DebtToken)}
			}
		}
	}
	// (1) vault count
	if n := vk.GetLengthOfVault(ctx); n != uint64(len(vaults)) {
		return &Violation{Property: "C01", OracleID: "c01.count", Signature: cmpSig(int64(n), int64(len(vaults))) + ctxTag(ev),
			Detail: fmt.Sprintf("vault count %d != %d open vaults after %s", n, len(vaults), ev.Tag)}
	}
	// (2) custody per collateral denom
	collSum := map[string]sdk.Int{}
	openIn := map[prodKey]sdk.Int{}
	openOut := map[prodKey]sdk.Int{}
	openIDs := map[prodKey][]uint64{}
	for _, v := range vaults {
		in, _, ok := w.extAssets(v.ExtendedPairVaultID)
		if !ok {
			continue
		}
		if cur, ok := collSum[in.Denom]; ok {
			collSum[in.Denom] = cur.Add(v.AmountIn)
		} else {
			collSum[in.Denom] = v.AmountIn
		}
		k := prodKey{v.AppId, v.ExtendedPairVaultID}
		addTo(openIn, k, v.AmountIn)
		addTo(openOut, k, v.AmountOut)
		openIDs[k] = append(openIDs[k], v.Id)
	}
	for _, v := range stables {
		in, _, ok := w.extAssets(v.ExtendedPairVaultID)
		if !ok {
			continue
		}
		if stableRedeemed(w, v.AppId) {
			// listed finding: the redemption set-up moves the collateral out and reduces the product totals but leaves the
			// stable-mint vault record (amounts and id) as it was; accounted for by leaving the record out of every sum
			if v.AmountIn.IsPositive() || v.AmountOut.IsPositive() {
				if o.staleStable == nil {
					o.staleStable = map[uint64]bool{}
				}
				if !o.staleStable[v.Id] {
					o.staleStable[v.Id] = true
					return &Violation{Property: "C01", OracleID: "c01.custody", Signature: "stable_mint_vault_record_survives_emergency_redemption", Continue: true,
						Detail: fmt.Sprintf("after the emergency shutdown of app %d moved the collateral of stable-mint vault %d (product %d) to the redemption account and took it off the product totals, the vault record still shows collateral %s and principal %s", v.AppId, v.Id, v.ExtendedPairVaultID, v.AmountIn, v.AmountOut)}
				}
			}
			continue
		}
		if cur, ok := collSum[in.Denom]; ok {
			collSum[in.Denom] = cur.Add(v.AmountIn)
		} else {
			collSum[in.Denom] = v.AmountIn
		}
		k := prodKey{v.AppId, v.ExtendedPairVaultID}
		addTo(openIn, k, v.AmountIn)
		addTo(openOut, k, v.AmountOut)
		openIDs[k] = append(openIDs[k], v.Id)
	}
	// every collateral denom of every product, also those with no vault
	denoms := map[string]struct{}{}
	for _, ep := range allExtPairs(w) {
		in, _, ok := w.extAssets(ep)
		if ok {
			denoms[in.Denom] = struct{}{}
		}
	}
	vaultAddr := w.ModAddr(vaulttypes.ModuleName)
	dl := make([]string, 0, len(denoms))
	for d := range denoms {
		dl = append(dl, d)
	}
	sort.Strings(dl)
	for _, d := range dl {
		want, ok := collSum[d]
		if !ok {
			want = sdk.ZeroInt()
		}
		have := w.Bal(vaultAddr, d).Sub(w.UnsolicitedAmt(vaultAddr, d))
		if !have.Equal(want) {
			return &Violation{Property: "C01", OracleID: "c01.custody", Signature: cmpSigInt(have, want) + ctxTag(ev),
				Detail: fmt.Sprintf("vault custody of %s is %s (net of unsolicited) but open vaults record %s, after %s", d, have, want, ev.Tag)}
		}
	}
	if len(vaults) > 0 {
		w.Stats.Probe("c01.checked_with_open_vaults")
	}
	for _, st := range w.App.EsmKeeper.GetAllESMStatus(ctx) {
		if st.Status && st.VaultRedemptionStatus {
			w.Stats.Probe("c01.checked_after_emergency_redemption")
			break
		}
	}
	// (3) per-product published totals
	locked := w.lockedVaults()
	for _, m := range vk.GetAllAppExtendedPairVaultMapping(ctx) {
		k := prodKey{m.AppId, m.ExtendedPairId}
		wantIn := getOr0(openIn, k).Add(getOr0(locked.coll, k))
		wantOut := getOr0(openOut, k).Add(getOr0(locked.principal, k))
		if !m.CollateralLockedAmount.Equal(wantIn) {
			return &Violation{Property: "C01", OracleID: "c01.totals.collateral", Signature: cmpSigInt(m.CollateralLockedAmount, wantIn) + ctxTag(ev),
				Detail: fmt.Sprintf("product (%d,%d) collateral-locked %s != open %s + awaiting settlement %s, after %s", m.AppId, m.ExtendedPairId, m.CollateralLockedAmount, getOr0(openIn, k), getOr0(locked.coll, k), ev.Tag)}
		}
		if !m.TokenMintedAmount.Equal(wantOut) {
			if w.Liq != nil {
				skew := getOr0(w.Liq.mintedSkew, k)
				if !skew.IsZero() && m.TokenMintedAmount.Add(skew).Equal(wantOut) {
					// exactly the interest + closing fee of vault auctions settled by a final V2 dutch bid: listed finding, accounted for, keep checking
					if o.reported == nil {
						o.reported = map[prodKey]bool{}
					}
					if o.reported[k] {
						continue
					}
					o.reported[k] = true
					return &Violation{Property: "C01", OracleID: "c01.totals.minted", Signature: "v2_dutch_settlement_subtracts_interest_and_closing_fee", Continue: true,
						Detail: fmt.Sprintf("product (%d,%d) tokens-minted %s is short by %s = interest + closing fee of its settled V2 vault auctions (settlement subtracts total debt, only principal was ever added)", m.AppId, m.ExtendedPairId, m.TokenMintedAmount, skew)}
				}
			}
			return &Violation{Property: "C01", OracleID: "c01.totals.minted", Signature: cmpSigInt(m.TokenMintedAmount, wantOut) + ctxTag(ev),
				Detail: fmt.Sprintf("product (%d,%d) tokens-minted %s != open %s + awaiting settlement %s, after %s", m.AppId, m.ExtendedPairId, m.TokenMintedAmount, getOr0(openOut, k), getOr0(locked.principal, k), ev.Tag)}
		}
		ids := append([]uint64(nil), m.VaultIds...)
		sort.Slice(ids, func(i, j int) bool { return ids[i] < ids[j] })
		want := append([]uint64(nil), openIDs[k]...)
		sort.Slice(want, func(i, j int) bool { return want[i] < want[j] })
		if fmt.Sprint(ids) != fmt.Sprint(want) {
			return &Violation{Property: "C01", OracleID: "c01.totals.ids", Signature: "ids" + ctxTag(ev),
				Detail: fmt.Sprintf("product (%d,%d) lists vault ids %v but open vaults are %v, after %s", m.AppId, m.ExtendedPairId, ids, want, ev.Tag)}
		}
	}
	if locked.any {
		w.Stats.Probe("c01.checked_with_locked_vaults")
	}
	return nil
}

func allExtPairs(w *World) []uint64 {
	eps, _ := w.App.AssetKeeper.GetPairsVaults(w.Ctx())
	var out []uint64
	for _, e := range eps {
		out = append(out, e.Id)
	}
	return out
}

func cmpSig(have, want int64) string {
	if have > want {
		return "more"
	}
	return "less"
}

func cmpSigInt(have, want sdk.Int) string {
	if have.GT(want) {
		return "more"
	}
	return "less"
}

// ctxTag makes the signature specific to the kind of step that exposed it.
func ctxTag(ev *Event) string {
	t := ev.Tag
	if t == "" {
		t = ev.Kind
	}
	return "@" + t
}

// ---------- C02 ----------

type c02Oracle struct {
	pre struct {
		supply, user, coll, principal sdk.Int
		valid                         bool
		fee                           sdk.Dec
		debtDenom                     string
		msgKind                       string
		liq                           bool
	}
	sawLiquidation bool
}

func (o *c02Oracle) ID() string { return "c02.backing" }

func (w *World) totalPrincipal(debtDenom string) (sdk.Int, bool) {
	ctx := w.Ctx()
	tot := sdk.ZeroInt()
	for _, v := range w.App.VaultKeeper.GetVaults(ctx) {
		_, out, ok := w.extAssets(v.ExtendedPairVaultID)
		if ok && out.Denom == debtDenom {
			tot = tot.Add(v.AmountOut)
		}
	}
	for _, v := range w.App.VaultKeeper.GetStableMintVaults(ctx) {
		_, out, ok := w.extAssets(v.ExtendedPairVaultID)
		if ok && out.Denom == debtDenom && !stableRedeemed(w, v.AppId) { // after the redemption set-up the debt is registered with the esm module
			tot = tot.Add(v.AmountOut)
		}
	}
	lv := w.lockedVaults()
	for k, p := range lv.principal {
		_, out, ok := w.extAssets(k.ext)
		if ok && out.Denom == debtDenom {
			tot = tot.Add(p)
		}
	}
	return tot, lv.any
}

func vaultMsgKind(m sdk.Msg) (kind string, ext uint64, from string) {
	switch x := m.(type) {
	case *vaulttypes.MsgCreateRequest:
		return "mint", x.ExtendedPairVaultId, x.From
	case *vaulttypes.MsgDrawRequest:
		return "mint", x.ExtendedPairVaultId, x.From
	case *vaulttypes.MsgDepositAndDrawRequest:
		return "mint", x.ExtendedPairVaultId, x.From
	case *vaulttypes.MsgCreateStableMintRequest:
		return "mint", x.ExtendedPairVaultId, x.From
	case *vaulttypes.MsgDepositStableMintRequest:
		return "mint", x.ExtendedPairVaultId, x.From
	case *vaulttypes.MsgRepayRequest:
		return "retire", x.ExtendedPairVaultId, x.From
	case *vaulttypes.MsgCloseRequest:
		return "retire", x.ExtendedPairVaultId, x.From
	case *vaulttypes.MsgWithdrawStableMintRequest:
		return "retire", x.ExtendedPairVaultId, x.From
	case *vaulttypes.MsgDepositRequest:
		return "neutral", x.ExtendedPairVaultId, x.From
	case *vaulttypes.MsgWithdrawRequest:
		return "neutral", x.ExtendedPairVaultId, x.From
	case *vaulttypes.MsgVaultInterestCalcRequest:
		return "neutral", 0, x.From
	}
	return "", 0, ""
}

func (o *c02Oracle) Before(w *World, ev *Event) {
	o.pre.valid = false
	if ev.Kind != "tx" {
		return
	}
	msgs, err := w.DecodeMsgs(ev)
	if err != nil || len(msgs) != 1 {
		return
	}
	kind, ext, _ := vaultMsgKind(msgs[0])
	if kind == "" {
		return
	}
	denom := w.Cdp.Debt.Denom
	fee := sdk.ZeroDec()
	if ext != 0 {
		_, out, ok := w.extAssets(ext)
		if !ok {
			return
		}
		denom = out.Denom
		ep, _ := w.App.AssetKeeper.GetPairsVault(w.Ctx(), ext)
		fee = ep.DrawDownFee
	}
	o.pre.msgKind = kind
	o.pre.debtDenom = denom
	o.pre.fee = fee
	o.pre.supply = w.Supply(denom)
	o.pre.user = w.Bal(w.Actors[ev.Actor].Addr, denom)
	o.pre.coll = w.ModBal(collectortypes.ModuleName, denom)
	o.pre.principal, o.pre.liq = w.totalPrincipal(denom)
	o.pre.valid = true
}

func (o *c02Oracle) After(w *World, ev *Event, res Result) *Violation {
	denom := w.Cdp.Debt.Denom
	// global bound after every event
	principal, anyLocked := w.totalPrincipal(denom)
	if anyLocked {
		o.sawLiquidation = true
	}
	supply := w.Supply(denom).Sub(w.Faucet.AmountOf(denom))
	esmDebt := esmRegisteredDebt(w, denom)
	bound := principal.Add(esmDebt)
	if supply.GT(bound) {
		return &Violation{Property: "C02", OracleID: "c02.supply_bound", Signature: "supply>principal" + ctxTag(ev),
			Detail: fmt.Sprintf("supply of %s is %s but recorded principal (open+stable+awaiting auction+ESM) is %s, after %s", denom, supply, bound, ev.Tag)}
	}
	if !o.sawLiquidation && !w.LiqSeen && !supply.Equal(bound) {
		return &Violation{Property: "C02", OracleID: "c02.supply_exact", Signature: "supply!=principal" + ctxTag(ev),
			Detail: fmt.Sprintf("no liquidation so far, yet supply of %s is %s and recorded principal is %s, after %s", denom, supply, bound, ev.Tag)}
	}
	if !o.pre.valid || ev.Kind != "tx" || !res.Tx.OK() {
		return nil
	}
	d := o.pre.debtDenom
	dSupply := w.Supply(d).Sub(o.pre.supply)
	dUser := w.Bal(w.Actors[ev.Actor].Addr, d).Sub(o.pre.user)
	dColl := w.ModBal(collectortypes.ModuleName, d).Sub(o.pre.coll)
	pr, _ := w.totalPrincipal(d)
	dPrin := pr.Sub(o.pre.principal)
	switch o.pre.msgKind {
	case "mint":
		w.Stats.Probe("c02.mint_checked")
		if !o.pre.fee.IsZero() {
			w.Stats.Probe("c02.mint_with_fee")
		} else {
			w.Stats.Probe("c02.mint_zero_fee")
		}
		if !dSupply.Equal(dPrin) {
			return &Violation{Property: "C02", OracleID: "c02.mint", Signature: "supply_delta!=principal_delta" + ctxTag(ev),
				Detail: fmt.Sprintf("%s minted %s %s but recorded principal grew by %s", ev.Tag, dSupply, d, dPrin)}
		}
		fee := sdk.NewDecFromInt(dPrin).Mul(o.pre.fee).TruncateInt()
		// exact floor with big.Rat, independent of sdk.Dec rounding
		feeExact := floorMulDec(dPrin, o.pre.fee)
		if !fee.Equal(feeExact) {
			fee = feeExact
		}
		if !dColl.Equal(fee) {
			return &Violation{Property: "C02", OracleID: "c02.mint", Signature: "collector_delta!=fee" + ctxTag(ev),
				Detail: fmt.Sprintf("%s: new principal %s, draw-down fee rate %s => fee %s, but collector received %s", ev.Tag, dPrin, o.pre.fee, fee, dColl)}
		}
		if !dUser.Equal(dPrin.Sub(fee)) {
			return &Violation{Property: "C02", OracleID: "c02.mint", Signature: "user_delta!=principal-fee" + ctxTag(ev),
				Detail: fmt.Sprintf("%s: new principal %s, fee %s, user should receive %s but received %s of %s", ev.Tag, dPrin, fee, dPrin.Sub(fee), dUser, d)}
		}
	case "retire":
		w.Stats.Probe("c02.retire_checked")
		if !dSupply.Equal(dPrin) {
			return &Violation{Property: "C02", OracleID: "c02.retire", Signature: "burn!=retired_principal" + ctxTag(ev),
				Detail: fmt.Sprintf("%s burned %s %s but recorded principal fell by %s", ev.Tag, dSupply.Neg(), d, dPrin.Neg())}
		}
		if dColl.IsNegative() {
			return &Violation{Property: "C02", OracleID: "c02.retire", Signature: "collector_paid_out" + ctxTag(ev), Detail: fmt.Sprintf("%s: collector balance fell by %s", ev.Tag, dColl.Neg())}
		}
		if !dUser.Neg().Equal(dSupply.Neg().Add(dColl)) {
			return &Violation{Property: "C02", OracleID: "c02.retire", Signature: "user_paid!=burn+fees" + ctxTag(ev),
				Detail: fmt.Sprintf("%s: user paid %s, burned %s, collector got %s", ev.Tag, dUser.Neg(), dSupply.Neg(), dColl)}
		}
		if dColl.IsPositive() {
			w.Stats.Probe("c02.fee_paid_from_supply")
		}
	case "neutral":
		if !dSupply.IsZero() || !dPrin.IsZero() {
			return &Violation{Property: "C02", OracleID: "c02.neutral", Signature: "supply_or_principal_changed" + ctxTag(ev),
				Detail: fmt.Sprintf("%s changed supply by %s and principal by %s", ev.Tag, dSupply, dPrin)}
		}
	}
	return nil
}

// esmRegisteredDebt: debt registered for emergency redemption (filled by the esm scenario code).

// esmRegisteredDebt: debt of closed vaults registered for emergency redemption (per app and debt asset).
func esmRegisteredDebt(w *World, denom string) sdk.Int {
	ctx := w.Ctx()
	tot := sdk.ZeroInt()
	apps, _ := w.App.AssetKeeper.GetApps(ctx)
	for _, a := range apps {
		for _, x := range w.App.EsmKeeper.GetAllAssetToAmount(ctx, a.Id) {
			if x.IsCollateral {
				continue
			}
			if as, ok := w.App.AssetKeeper.GetAsset(ctx, x.AssetID); ok && as.Denom == denom {
				tot = tot.Add(x.Amount)
			}
		}
	}
	return tot
}

func floorMulDec(x sdk.Int, d sdk.Dec) sdk.Int {
	n := new(big.Int).Mul(x.BigInt(), d.BigInt())
	n.Quo(n, big.NewInt(1_000_000_000_000_000_000))
	return sdk.NewIntFromBigInt(n)
}

// ---------- C03 ----------

type c03Oracle struct {
	reportedCeil bool
	pre          struct {
		valid       bool
		kind        string
		ext, app    uint64
		from        string
		priceNeeded bool
		priceActive bool
		esm         bool
	}
}

func (o *c03Oracle) ID() string { return "c03.limits" }

func (w *World) esmOn(app uint64) bool {
	st, found := w.App.EsmKeeper.GetESMStatus(w.Ctx(), app)
	return found && st.Status
}

func (o *c03Oracle) Before(w *World, ev *Event) {
	o.pre.valid = false
	if ev.Kind != "tx" {
		return
	}
	msgs, err := w.DecodeMsgs(ev)
	if err != nil || len(msgs) != 1 {
		return
	}
	var kind string
	var ext, app uint64
	var from string
	switch x := msgs[0].(type) {
	case *vaulttypes.MsgCreateRequest:
		kind, ext, app, from = "create", x.ExtendedPairVaultId, x.AppId, x.From
	case *vaulttypes.MsgDrawRequest:
		kind, ext, app, from = "draw", x.ExtendedPairVaultId, x.AppId, x.From
	case *vaulttypes.MsgWithdrawRequest:
		kind, ext, app, from = "withdraw", x.ExtendedPairVaultId, x.AppId, x.From
	case *vaulttypes.MsgDepositAndDrawRequest:
		kind, ext, app, from = "deposit_draw", x.ExtendedPairVaultId, x.AppId, x.From
	case *vaulttypes.MsgRepayRequest:
		kind, ext, app, from = "repay", x.ExtendedPairVaultId, x.AppId, x.From
	default:
		return
	}
	o.pre.kind, o.pre.ext, o.pre.app, o.pre.from = kind, ext, app, from
	o.pre.esm = w.esmOn(app)
	in, out, ok := w.extAssets(ext)
	if !ok {
		return
	}
	ctx := w.Ctx()
	ep, _ := w.App.AssetKeeper.GetPairsVault(ctx, ext)
	active := true
	if twa, f := w.App.MarketKeeper.GetTwa(ctx, in.ID); !f || !twa.IsPriceActive {
		active = false
	}
	if ep.AssetOutOraclePrice {
		if twa, f := w.App.MarketKeeper.GetTwa(ctx, out.ID); !f || !twa.IsPriceActive {
			active = false
		}
	}
	o.pre.priceActive = active
	o.pre.valid = true
}

var oneE18 = new(big.Int).Exp(big.NewInt(10), big.NewInt(18), nil)

func (o *c03Oracle) After(w *World, ev *Event, res Result) *Violation {
	if !o.pre.valid || !res.Tx.OK() {
		return nil
	}
	if o.pre.esm {
		return nil
	}
	ctx := w.Ctx()
	kind := o.pre.kind
	if kind != "repay" && !o.pre.priceActive {
		return &Violation{Property: "C03", OracleID: "c03.inactive_price", Signature: kind,
			Detail: fmt.Sprintf("%s on product %d succeeded although a required oracle price was not active", kind, o.pre.ext)}
	}
	ep, _ := w.App.AssetKeeper.GetPairsVault(ctx, o.pre.ext)
	m, ok := w.App.VaultKeeper.GetUserAppExtendedPairMappingData(ctx, o.pre.from, o.pre.app, o.pre.ext)
	if !ok {
		return nil
	}
	v, ok := w.App.VaultKeeper.GetVault(ctx, m.VaultId)
	if !ok {
		return nil
	}
	// debt floor
	if v.AmountOut.LT(ep.DebtFloor) {
		return &Violation{Property: "C03", OracleID: "c03.floor", Signature: kind,
			Detail: fmt.Sprintf("after %s vault %d has principal %s below the debt floor %s", kind, v.Id, v.AmountOut, ep.DebtFloor)}
	}
	if v.AmountOut.Equal(ep.DebtFloor) {
		w.Stats.Probe("c03.boundary.floor_exact")
	}
	if kind == "repay" {
		return nil
	}
	// debt ceiling over open vaults of the product
	if kind != "withdraw" {
		tot := sdk.ZeroInt()
		for _, x := range w.App.VaultKeeper.GetVaults(ctx) {
			if x.AppId == o.pre.app && x.ExtendedPairVaultID == o.pre.ext {
				tot = tot.Add(x.AmountOut)
			}
		}
		if tot.GT(ep.DebtCeiling) && w.Liq != nil {
			skew := getOr0(w.Liq.mintedSkew, prodKey{o.pre.app, o.pre.ext})
			if skew.IsPositive() && tot.Sub(skew).LTE(ep.DebtCeiling) {
				// consequence of the listed C01 finding: the product total the ceiling check reads is understated by exactly this skew
				if !o.reportedCeil {
					o.reportedCeil = true
					return &Violation{Property: "C03", OracleID: "c03.ceiling", Signature: "bypassed_via_understated_tokens_minted_after_v2_settlement", Continue: true,
						Detail: fmt.Sprintf("after %s product (%d,%d) has outstanding principal %s above the ceiling %s; the product's published tokens-minted is understated by %s (interest+closing fee of settled V2 vault auctions), which is what the ceiling check reads", kind, o.pre.app, o.pre.ext, tot, ep.DebtCeiling, skew)}
				}
				tot = ep.DebtCeiling
			}
		}
		if tot.GT(ep.DebtCeiling) {
			return &Violation{Property: "C03", OracleID: "c03.ceiling", Signature: kind,
				Detail: fmt.Sprintf("after %s product (%d,%d) has outstanding principal %s above the ceiling %s", kind, o.pre.app, o.pre.ext, tot, ep.DebtCeiling)}
		}
		if tot.Add(sdk.NewInt(2)).GTE(ep.DebtCeiling) {
			w.Stats.Probe("c03.boundary.ceiling_near")
		}
	}
	// collateral ratio, exact
	in, out, _ := w.extAssets(o.pre.ext)
	twaIn, _ := w.App.MarketKeeper.GetTwa(ctx, in.ID)
	pout := ep.AssetOutPrice
	if ep.AssetOutOraclePrice {
		t, _ := w.App.MarketKeeper.GetTwa(ctx, out.ID)
		pout = t.Twa
	}
	debt := v.AmountOut.Add(v.InterestAccumulated)
	if !debt.IsPositive() {
		return nil
	}
	vin := new(big.Rat).SetFrac(new(big.Int).Mul(v.AmountIn.BigInt(), new(big.Int).SetUint64(twaIn.Twa)), in.Decimals.BigInt())
	vout := new(big.Rat).SetFrac(new(big.Int).Mul(debt.BigInt(), new(big.Int).SetUint64(pout)), out.Decimals.BigInt())
	minCr := new(big.Rat).SetFrac(ep.MinCr.BigInt(), oneE18)
	w.Stats.Probe("c03.cr_checked")
	if vout.Sign() <= 0 {
		return nil
	}
	cr := new(big.Rat).Quo(vin, vout)
	if cr.Cmp(minCr) >= 0 {
		// within 1e-9 relative of the boundary?
		near := new(big.Rat).Mul(minCr, big.NewRat(1_000_000_001, 1_000_000_000))
		if cr.Cmp(near) <= 0 {
			w.Stats.Probe("c03.boundary.cr_near")
		}
		return nil
	}
	// rounding band of the 18-decimal representation: each value is stored with absolute error <= 1e-18, the quotient again
	ulp := big.NewRat(1, 1).SetFrac(big.NewInt(1), oneE18)
	vinHi := new(big.Rat).Add(vin, ulp)
	voutLo := new(big.Rat).Sub(vout, ulp)
	if voutLo.Sign() <= 0 {
		w.Stats.Probe("c03.rounding_band")
		return nil
	}
	best := new(big.Rat).Quo(vinHi, voutLo)
	best.Add(best, ulp)
	if best.Cmp(minCr) >= 0 {
		w.Stats.Probe("c03.rounding_band")
		return nil
	}
	f, _ := cr.Float64()
	return &Violation{Property: "C03", OracleID: "c03.min_cr", Signature: kind,
		Detail: fmt.Sprintf("after %s vault %d: collateral %s %s @%d, debt %s %s @%d => ratio %.12f < MinCr %s", kind, v.Id, v.AmountIn, in.Denom, twaIn.Twa, debt, out.Denom, pout, f, ep.MinCr)}
}
