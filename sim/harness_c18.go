package main

import (
	"math"
	"strconv"
	"os"
	"fmt"
	"math/big"

	sdk "github.com/cosmos/cosmos-sdk/types"

	lockertypes "github.com/comdex-official/comdex/x/locker/types"
	vaulttypes "github.com/comdex-official/comdex/x/vault/types"
)

// c18Harness: twin worlds from the same genesis receive the same events, except that pure interest-trigger
// transactions (vault interest calc, locker reward calc) reach world A only. At every block boundary each position that
// is identical in both worlds (same principal) is accrued to "now" on discarded branches of both worlds and compared:
// triggering more often (A) must not make a vault owe more / a locker earn more than a single accrual (B).
// World A additionally carries per-message checks: accrual >= 0 and exactly 0 when no time has elapsed.
type c18Harness struct {
	spec     *PropSpec
	a, b     *World
	diverged bool
	triggers map[uint64]int // vault id -> number of extra accrual steps in A
	trigTimes map[uint64][]int64
	ltrig    map[uint64]int // locker id -> same
	lexcl    map[uint64]bool
	pre      struct {
		kind           string
		id             uint64
		interest       sdk.Int
		frac           sdk.Dec
		sameSecond     bool
		net            sdk.Int
		valid          bool
	}
}

func (h *c18Harness) Start(cfg Config) {
	h.a = buildWorld(cfg)
	h.b = buildWorld(cfg)
	h.triggers = map[uint64]int{}
	h.trigTimes = map[uint64][]int64{}
	h.ltrig = map[uint64]int{}
}
func (h *c18Harness) World() *World { return h.a }

func pureTrigger(ev *Event) bool {
	return ev.Kind == "tx" && (ev.Tag == "vault.interest" || ev.Tag == "locker.reward_calc")
}

func (h *c18Harness) before(ev *Event) {
	h.pre.valid = false
	if ev.Kind != "tx" {
		return
	}
	w := h.a
	msgs, err := w.DecodeMsgs(ev)
	if err != nil || len(msgs) != 1 {
		return
	}
	ctx := w.Ctx()
	switch x := msgs[0].(type) {
	case *vaulttypes.MsgVaultInterestCalcRequest:
		v, ok := w.App.VaultKeeper.GetVault(ctx, x.UserVaultId)
		if !ok {
			return
		}
		tr, _ := w.App.Rewardskeeper.GetVaultInterestTracker(ctx, v.Id, v.AppId)
		h.pre.kind, h.pre.id, h.pre.interest, h.pre.frac = "vault", v.Id, v.InterestAccumulated, decOr0(tr.InterestAccumulated)
		h.pre.sameSecond = v.BlockHeight != 0 && v.BlockTime.Unix() == ctx.BlockTime().Unix()
		h.pre.valid = true
	case *lockertypes.MsgLockerRewardCalcRequest:
		l, ok := w.App.LockerKeeper.GetLocker(ctx, x.LockerId)
		if !ok {
			return
		}
		tr, _ := w.App.Rewardskeeper.GetLockerRewardTracker(ctx, l.LockerId, l.AppId)
		h.pre.kind, h.pre.id, h.pre.net, h.pre.frac = "locker", l.LockerId, l.NetBalance, decOr0(tr.RewardsAccumulated)
		if h.ltrig[l.LockerId] == 0 && !h.lexcl[l.LockerId] && !h.diverged {
			// lockers draw on one fee pool: triggers on other lockers and vaults (world A only) may already have left
			// this locker with different earnings than its twin (a settlement loop that drops what the pool cannot
			// cover, listed C13 finding). Only a locker that is identical in both worlds before its first extra
			// trigger says anything about that trigger.
			ea, pa, _, ok1 := earnedLocker(h.a, l.LockerId)
			eb, pb, _, ok2 := earnedLocker(h.b, l.LockerId)
			if !ok1 || !ok2 || !pa.Equal(pb) || !ea.Equal(eb) {
				if h.lexcl == nil {
					h.lexcl = map[uint64]bool{}
				}
				h.lexcl[l.LockerId] = true
				w.Stats.Probe("c18.locker_twin_differs_before_trigger")
				if os.Getenv("VERIF_DEBUG_C18") != "" {
					fmt.Fprintf(os.Stderr, "C18 locker %d excluded: before its first trigger A earned %v, B %v\n", l.LockerId, ea, eb)
				}
			}
		}
		h.pre.sameSecond = l.BlockHeight != 0 && l.BlockTime.Unix() == ctx.BlockTime().Unix()
		h.pre.valid = true
	}
}

func decOr0(d sdk.Dec) sdk.Dec {
	if d.IsNil() {
		return sdk.ZeroDec()
	}
	return d
}

func (h *c18Harness) after(ev *Event, res Result) *Violation {
	if !h.pre.valid || !res.Tx.OK() {
		return nil
	}
	w := h.a
	ctx := w.Ctx()
	switch h.pre.kind {
	case "vault":
		v, ok := w.App.VaultKeeper.GetVault(ctx, h.pre.id)
		if !ok {
			return nil
		}
		tr, _ := w.App.Rewardskeeper.GetVaultInterestTracker(ctx, v.Id, v.AppId)
		dInt := v.InterestAccumulated.Sub(h.pre.interest)
		dFrac := decOr0(tr.InterestAccumulated).Sub(h.pre.frac)
		total := sdk.NewDecFromInt(dInt).Add(dFrac)
		w.Stats.Probe("c18.vault_calc_checked")
		if total.IsNegative() || decOr0(tr.InterestAccumulated).IsNegative() {
			return &Violation{Property: "C18", OracleID: "c18.nonneg", Signature: "vault_interest_negative",
				Detail: fmt.Sprintf("interest calculation on vault %d changed the owed interest by %s (stored %s -> %s, carried fraction %s -> %s)", v.Id, total, h.pre.interest, v.InterestAccumulated, h.pre.frac, tr.InterestAccumulated)}
		}
		if h.pre.sameSecond {
			w.Stats.Probe("c18.zero_time_checked")
			if !total.IsZero() {
				return &Violation{Property: "C18", OracleID: "c18.zero_time", Signature: "vault_interest_over_zero_time",
					Detail: fmt.Sprintf("interest calculation on vault %d with zero elapsed time accrued %s", v.Id, total)}
			}
		} else if total.IsPositive() {
			w.Stats.Probe("c18.vault_interest_accrued")
		}
	case "locker":
		l, ok := w.App.LockerKeeper.GetLocker(ctx, h.pre.id)
		if !ok {
			return nil
		}
		tr, _ := w.App.Rewardskeeper.GetLockerRewardTracker(ctx, l.LockerId, l.AppId)
		total := sdk.NewDecFromInt(l.NetBalance.Sub(h.pre.net)).Add(decOr0(tr.RewardsAccumulated).Sub(h.pre.frac))
		w.Stats.Probe("c18.locker_calc_checked")
		if total.IsNegative() || decOr0(tr.RewardsAccumulated).IsNegative() {
			return &Violation{Property: "C18", OracleID: "c18.nonneg", Signature: "locker_savings_negative",
				Detail: fmt.Sprintf("reward calculation on locker %d changed balance+carried fraction by %s", l.LockerId, total)}
		}
		if h.pre.sameSecond {
			w.Stats.Probe("c18.zero_time_checked")
			if !total.IsZero() {
				return &Violation{Property: "C18", OracleID: "c18.zero_time", Signature: "locker_savings_over_zero_time",
					Detail: fmt.Sprintf("reward calculation on locker %d with zero elapsed time accrued %s", l.LockerId, total)}
			}
		} else if total.IsPositive() {
			w.Stats.Probe("c18.locker_savings_accrued")
		}
	}
	return nil
}

func (h *c18Harness) Step(ev *Event, step int) (Result, *Violation) {
	h.before(ev)
	res := h.a.Apply(ev)
	if h.a.Panicked != "" {
		return res, nil
	}
	h.a.Stats.OracleEval++
	if v := h.after(ev, res); v != nil {
		v.Step = step
		return res, v
	}
	if ev.Kind == "admin" && ev.Admin == "aux.update_lookup" && res.Err == nil {
		// a change of the saving rate settles every locker through a loop that silently drops a locker's accrual when the
		// recorded fees cannot cover it (listed C13 finding): which twin loses how much then depends on when it was last paid.
		// Lockers are compared only for triggers since the last rate change, and a locker that had been triggered before
		// the change may already hold a different balance than its twin: it is left out from then on.
		if h.lexcl == nil {
			h.lexcl = map[uint64]bool{}
		}
		for id, n := range h.ltrig {
			if n > 0 {
				h.lexcl[id] = true
			}
		}
		h.ltrig = map[uint64]int{}
	}
	if pureTrigger(ev) {
		if res.Tx.OK() && h.pre.valid {
			if h.pre.kind == "vault" {
				h.triggers[h.pre.id]++
				h.trigTimes[h.pre.id] = append(h.trigTimes[h.pre.id], h.a.Hdr.Time.Unix())
			} else if !h.lexcl[h.pre.id] {
				h.ltrig[h.pre.id]++
			}
			h.a.Stats.Fault("sched.extra_interest_trigger")
		}
		return res, nil
	}
	if h.diverged {
		return res, nil
	}
	rb := h.b.Apply(cloneEvent(ev))
	if h.b.Panicked != "" {
		h.diverged = true
		return res, nil
	}
	if ev.Kind == "tx" && res.Tx.OK() != rb.Tx.OK() {
		// the twins took different paths (a boundary amount fell on different sides); comparison is meaningless from here on
		h.diverged = true
		h.a.Stats.Probe("c18.twins_diverged")
		return res, nil
	}
	if ev.Kind == "block" {
		if v := h.compareTwins(); v != nil {
			v.Step = step
			return res, v
		}
	}
	return res, nil
}

func (h *c18Harness) Finish() *Violation {
	if h.diverged || h.a.Panicked != "" {
		return nil
	}
	return h.compareTwins()
}

// owedVault accrues the vault to the current block time on a discarded branch and returns stored interest + carried fraction.
func owedVault(w *World, id uint64) (sdk.Dec, vaulttypes.Vault, bool) {
	ctx, _ := w.WCtx().CacheContext()
	v, ok := w.App.VaultKeeper.GetVault(ctx, id)
	if !ok {
		return sdk.Dec{}, v, false
	}
	total := v.AmountOut.Add(v.InterestAccumulated)
	var err error
	func() {
		defer func() {
			if r := recover(); r != nil {
				err = fmt.Errorf("%v", r)
			}
		}()
		err = w.App.Rewardskeeper.CalculateVaultInterest(ctx, v.AppId, v.ExtendedPairVaultID, v.Id, total, v.BlockHeight, v.BlockTime.Unix())
	}()
	if err != nil {
		return sdk.Dec{}, v, false
	}
	v2, _ := w.App.VaultKeeper.GetVault(ctx, id)
	tr, _ := w.App.Rewardskeeper.GetVaultInterestTracker(ctx, id, v.AppId)
	return sdk.NewDecFromInt(v2.InterestAccumulated).Add(decOr0(tr.InterestAccumulated)), v, true
}

func (h *c18Harness) compareTwins() *Violation {
	a, b := h.a, h.b
	for _, va := range a.App.VaultKeeper.GetVaults(a.Ctx()) {
		if h.triggers[va.Id] == 0 {
			continue
		}
		oa, v1, ok1 := owedVault(a, va.Id)
		ob, v2, ok2 := owedVault(b, va.Id)
		if !ok1 || !ok2 || !v1.AmountOut.Equal(v2.AmountOut) || v1.Owner != v2.Owner || v1.ExtendedPairVaultID != v2.ExtendedPairVaultID {
			continue
		}
		a.Stats.Probe("c18.twin_vault_compared")
		// tolerance: one smallest unit, plus the float64 resolution of the module's intermediate (about 16 significant
		// digits of principal+interest) per accrual step
		steps := int64(h.triggers[va.Id] + 2)
		// (of the debt after the final accrual: over decades it is orders of magnitude above the stored principal+interest)
		base := new(big.Int).Add(v1.AmountOut.BigInt(), v1.InterestAccumulated.BigInt())
		for _, o := range []sdk.Dec{oa, ob} {
			if t := new(big.Int).Add(v1.AmountOut.BigInt(), o.TruncateInt().BigInt()); t.Cmp(base) > 0 {
				base = t
			}
		}
		noise := new(big.Int).Mul(base, big.NewInt(steps*4))
		noise.Quo(noise, new(big.Int).Exp(big.NewInt(10), big.NewInt(15), nil))
		// noise = steps*4e-15*(principal+interest) units (float64 resolution of the module's growth factor), plus the last
		// stored decimals of the carried fraction (1e-15 per step)
		tol := sdk.NewDecFromBigIntWithPrec(new(big.Int).Mul(base, big.NewInt(steps*4)), 15).Add(sdk.NewDecWithPrec(steps, 15))
		_ = noise
		// amounts are stored in whole units with a carried fraction: each extra trigger can move less than one unit of
		// carried fraction into the compounding base, which from then on grows at most like the debt as a whole did
		// (owed/principal). That is the "rounding in the last stored place" of a whole-unit ledger.
		// Bound: one unit per extra trigger, grown at the product's annual rate from the trigger until now.
		ep, _ := a.App.AssetKeeper.GetPairsVault(a.Ctx(), v1.ExtendedPairVaultID)
		fee, _ := ep.StabilityFee.Float64()
		extra := 0.0
		for _, t := range h.trigTimes[va.Id] {
			years := float64(a.Hdr.Time.Unix()-t) / 31557600.0
			if years > 0 {
				extra += (math.Pow(1+fee, years) - 1) * 1.05
			}
		}
		if es, err := sdk.NewDecFromStr(strconv.FormatFloat(extra, 'f', 18, 64)); err == nil {
			tol = tol.Add(es)
		}
		if oa.GT(ob.Add(tol)) && os.Getenv("VERIF_DEBUG_C18") != "" {
			for _, x := range []*World{a, b} {
				v, _ := x.App.VaultKeeper.GetVault(x.Ctx(), va.Id)
				tr, _ := x.App.Rewardskeeper.GetVaultInterestTracker(x.Ctx(), va.Id, v.AppId)
				ep, _ := x.App.AssetKeeper.GetPairsVault(x.Ctx(), v.ExtendedPairVaultID)
				fmt.Printf("DEBUG vault %d: out=%s int=%s frac=%s bh=%d bt=%d now=%d fee=%s closing=%s\n", v.Id, v.AmountOut, v.InterestAccumulated, tr.InterestAccumulated, v.BlockHeight, v.BlockTime.Unix(), x.Hdr.Time.Unix(), ep.StabilityFee, v.ClosingFeeAccumulated)
			}
		}
		if oa.GT(ob.Add(tol)) {
			return &Violation{Property: "C18", OracleID: "c18.additivity", Signature: "more_triggers_owe_more:vault",
				Detail: fmt.Sprintf("vault %d (principal %s): with %d extra interest-calculation triggers it owes %s, with a single accrual %s (tolerance %s)", va.Id, v1.AmountOut, h.triggers[va.Id], oa, ob, tol)}
		}
		if oa.LT(ob) {
			a.Stats.Probe("c18.twin_split_accrual_owes_less")
		}
	}
	return h.compareLockerTwins()
}

// earnedLocker accrues the locker's savings to the current block time on a discarded branch and returns what it has earned
// in total (credited returns + carried fraction) together with the deposited principal (balance minus credited returns).
func earnedLocker(w *World, id uint64) (earned sdk.Dec, principal sdk.Int, l lockertypes.Locker, ok bool) {
	ctx, _ := w.WCtx().CacheContext()
	l, found := w.App.LockerKeeper.GetLocker(ctx, id)
	if !found {
		return sdk.Dec{}, sdk.Int{}, l, false
	}
	var err error
	func() {
		defer func() {
			if r := recover(); r != nil {
				err = fmt.Errorf("%v", r)
			}
		}()
		err = w.App.Rewardskeeper.CalculateLockerRewards(ctx, l.AppId, l.AssetDepositId, l.LockerId, l.Depositor, l.NetBalance, l.BlockHeight, l.BlockTime.Unix())
	}()
	if err != nil {
		return sdk.Dec{}, sdk.Int{}, l, false
	}
	l2, _ := w.App.LockerKeeper.GetLocker(ctx, id)
	tr, _ := w.App.Rewardskeeper.GetLockerRewardTracker(ctx, id, l.AppId)
	return sdk.NewDecFromInt(l2.ReturnsAccumulated).Add(decOr0(tr.RewardsAccumulated)), l2.NetBalance.Sub(l2.ReturnsAccumulated), l, true
}

// compareLockerTwins: a locker that received extra reward-calculation triggers (world A) must not have earned more than
// its twin that was accrued only by the operations both worlds share (same tolerance reasoning as for vaults).
func (h *c18Harness) compareLockerTwins() *Violation {
	a, b := h.a, h.b
	ids := make([]uint64, 0, len(h.ltrig))
	for id := range h.ltrig {
		ids = append(ids, id)
	}
	sortU64(ids)
	for _, id := range ids {
		if h.ltrig[id] == 0 {
			continue
		}
		ea, pa, la, ok1 := earnedLocker(a, id)
		eb, pb, lb, ok2 := earnedLocker(b, id)
		if !ok1 || !ok2 || !pa.Equal(pb) || la.Depositor != lb.Depositor {
			continue
		}
		a.Stats.Probe("c18.twin_locker_compared")
		steps := int64(h.ltrig[id] + 2)
		base := la.NetBalance
		if t := pa.Add(ea.TruncateInt()); t.GT(base) {
			base = t
		}
		// float64 resolution of principal x growth factor (the module subtracts the principal afterwards): 4e-14 per step
		tol := sdk.NewDecFromBigIntWithPrec(new(big.Int).Mul(base.BigInt(), big.NewInt(steps*4)), 14).Add(sdk.NewDecWithPrec(steps, 15))
		// every extra trigger may move whole units earlier into the balance that earns savings; growth of one unit per trigger
		lk, _ := a.App.CollectorKeeper.GetCollectorLookupTable(a.Ctx(), la.AppId, la.AssetDepositId)
		rate, _ := lk.LockerSavingRate.Float64()
		if rate > 10 {
			rate = 10
		}
		years := float64(a.Hdr.Time.Unix()-la.CreatedAt.Unix()) / 31557600.0
		if years < 0 {
			years = 0
		}
		extra := float64(h.ltrig[id]) * (math.Pow(1+rate, years) - 1) * 1.05
		if es, err := sdk.NewDecFromStr(strconv.FormatFloat(extra, 'f', 18, 64)); err == nil {
			tol = tol.Add(es)
		}
		if ea.GT(eb.Add(tol)) {
			return &Violation{Property: "C18", OracleID: "c18.additivity", Signature: "more_triggers_earn_more:locker",
				Detail: fmt.Sprintf("locker %d (deposited %s): with %d extra reward-calculation triggers it has earned %s, its twin accrued without them %s (tolerance %s)", id, pa, h.ltrig[id], ea, eb, tol)}
		}
	}
	return nil
}

func sortU64(x []uint64) {
	for i := 1; i < len(x); i++ {
		for j := i; j > 0 && x[j] < x[j-1]; j-- {
			x[j], x[j-1] = x[j-1], x[j]
		}
	}
}

// c18Switch picks the harness by scenario: twins for the cdp workload (vault interest, locker savings),
// per-event oracles for the lend workload (borrow interest, lend rewards, rate model).
type c18Switch struct {
	spec *PropSpec
	h    Harness
}

func (s *c18Switch) Start(cfg Config) {
	if cfg.Scenario == "lend" {
		l := *props["C18L"]
		l.ID = "C18"
		s.h = &stdHarness{spec: &l}
	} else {
		s.h = &c18Harness{spec: s.spec}
	}
	s.h.Start(cfg)
}
func (s *c18Switch) World() *World                               { return s.h.World() }
func (s *c18Switch) Step(ev *Event, step int) (Result, *Violation) { return s.h.Step(ev, step) }
func (s *c18Switch) Finish() *Violation                          { return s.h.Finish() }
