package main

import (
	"os"
	"fmt"
	"math/big"
	"sort"

	sdk "github.com/cosmos/cosmos-sdk/types"

	"github.com/comdex-official/comdex/x/liquidity/amm"
	liqtypes "github.com/comdex-official/comdex/x/liquidity/types"
	rewardskeeper "github.com/comdex-official/comdex/x/rewards/keeper"
	rewardstypes "github.com/comdex-official/comdex/x/rewards/types"
)

// dexOracle is the single oracle of each dex property; it drives the block tracker and adds the per-transaction and
// "after every event" checks of its property.
type dexOracle struct {
	prop string
	t    *dexTracker
	pre  dexTxPre
	// C07: MM orders that stayed live after a cancel/replace (listed finding), so they are reported once
	mmReported bool
}

type dexTxPre struct {
	valid    bool
	msg      sdk.Msg
	signer   *Actor
	bals     sdk.Coins
	pair     liqtypes.Pair
	pairOK   bool
	order    liqtypes.Order // cancel target
	expectOK bool           // C07: the cancel must succeed
	mmOld    []liqtypes.Order
	liveOld  []liqtypes.Order
	pairBatch map[uint64]uint64 // cancel-all: current batch id of every pair the signer has live orders in (before the message)
	pool     *poolState
	rewards  sdk.Coins
	gaugeID  uint64
}

func newDexOracle(w *World, prop string) *dexOracle {
	w.Dex.T.prop = prop
	w.Dex.T.snapshot(w)
	o := &dexOracle{prop: prop, t: w.Dex.T}
	// initial supply ledger
	for _, k := range o.t.snap.poolKeys {
		o.t.supply[k] = o.t.snap.pools[k].ps
	}
	if prop == "C19" {
		for id := range o.t.snap.gauges {
			o.t.gaugeSeen[id] = true
		}
	}
	return o
}

func (o *dexOracle) ID() string { return "dex." + o.prop }

func (o *dexOracle) Before(w *World, ev *Event) {
	o.t.vio = nil
	o.pre = dexTxPre{}
	if ev.Kind == "block" {
		o.t.snapshot(w)
		return
	}
	if ev.Kind != "tx" {
		return
	}
	msgs, err := w.DecodeMsgs(ev)
	if err != nil || len(msgs) != 1 || ev.Actor < 0 || ev.Actor >= len(w.Actors) {
		return
	}
	ctx := w.Ctx()
	lk := w.App.LiquidityKeeper
	p := &o.pre
	p.msg = msgs[0]
	p.signer = w.Actors[ev.Actor]
	p.bals = w.App.BankKeeper.GetAllBalances(ctx, p.signer.Addr)
	p.valid = true
	switch m := p.msg.(type) {
	case *liqtypes.MsgLimitOrder:
		p.pair, p.pairOK = lk.GetPair(ctx, m.AppId, m.PairId)
	case *liqtypes.MsgMarketOrder:
		p.pair, p.pairOK = lk.GetPair(ctx, m.AppId, m.PairId)
	case *liqtypes.MsgMMOrder:
		p.pair, p.pairOK = lk.GetPair(ctx, m.AppId, m.PairId)
		p.mmOld = o.liveMM(w, m.AppId, m.PairId, p.signer)
	case *liqtypes.MsgCancelMMOrder:
		p.pair, p.pairOK = lk.GetPair(ctx, m.AppId, m.PairId)
		p.mmOld = o.liveMM(w, m.AppId, m.PairId, p.signer)
	case *liqtypes.MsgCancelOrder:
		p.pair, p.pairOK = lk.GetPair(ctx, m.AppId, m.PairId)
		ord, found := lk.GetOrder(ctx, m.AppId, m.PairId, m.OrderId)
		if found && p.pairOK {
			p.order = ord
			p.expectOK = liveStatus(ord.Status) && ord.Orderer == p.signer.Bech() && m.Orderer == p.signer.Bech() && ord.BatchId < p.pair.CurrentBatchId
		}
	case *liqtypes.MsgCancelAllOrders:
		p.pairBatch = map[uint64]uint64{}
		for _, ord := range lk.GetOrdersByOrderer(ctx, m.AppId, p.signer.Addr) {
			if liveStatus(ord.Status) {
				p.liveOld = append(p.liveOld, ord)
				if pr, ok := lk.GetPair(ctx, m.AppId, ord.PairId); ok {
					p.pairBatch[ord.PairId] = pr.CurrentBatchId
				}
			}
		}
	case *liqtypes.MsgDepositAndFarm:
		p.pool = o.poolState(w, m.AppId, m.PoolId)
	case *liqtypes.MsgUnfarmAndWithdraw:
		p.pool = o.poolState(w, m.AppId, m.PoolId)
	case *rewardstypes.MsgCreateGauge:
		p.rewards = w.App.BankKeeper.GetAllBalances(ctx, w.ModAddr(rewardstypes.ModuleName))
		p.gaugeID = w.App.Rewardskeeper.GetGaugeID(ctx)
	}
}

func (o *dexOracle) poolState(w *World, app, pool uint64) *poolState {
	ctx := w.Ctx()
	pl, found := w.App.LiquidityKeeper.GetPool(ctx, app, pool)
	if !found {
		return nil
	}
	pair, _ := w.App.LiquidityKeeper.GetPair(ctx, app, pl.PairId)
	rx, ry, ps := w.poolBalances(pl, pair)
	return &poolState{pool: pl, pair: pair, rx: rx, ry: ry, ps: ps}
}

func (o *dexOracle) liveMM(w *World, app, pair uint64, a *Actor) (out []liqtypes.Order) {
	for _, ord := range w.App.LiquidityKeeper.GetOrdersByOrderer(w.Ctx(), app, a.Addr) {
		if ord.PairId == pair && ord.Type == liqtypes.OrderTypeMM && liveStatus(ord.Status) {
			out = append(out, ord)
		}
	}
	sort.Slice(out, func(i, j int) bool { return out[i].Id < out[j].Id })
	return
}

func (o *dexOracle) After(w *World, ev *Event, res Result) *Violation {
	if ev.Kind == "band_ack" || ev.Kind == "band_resp" {
		return nil
	}
	// block-level findings first (deterministic order: as produced)
	if len(o.t.vio) > 0 {
		v := o.t.vio[0]
		o.t.vio = nil
		return v
	}
	var v *Violation
	switch o.prop {
	case "C04":
		v = o.afterC04(w, ev, res)
	case "C05":
		v = nil
	case "C06":
		v = o.afterC06(w, ev, res)
	case "C07":
		v = o.afterC07(w, ev, res)
	case "C19":
		v = o.afterC19(w, ev, res)
	}
	return v
}

func txOK(ev *Event, res Result) bool { return ev.Kind == "tx" && res.Tx.OK() }

// ---------- C04 ----------

func (o *dexOracle) afterC04(w *World, ev *Event, res Result) *Violation {
	ctx := w.Ctx()
	lk := w.App.LiquidityKeeper
	apps := w.dexApps()
	tag := ctxTag(ev)
	// (1) global escrow >= pending requests of ALL apps
	pending := sdk.Coins{}
	for _, app := range apps {
		for _, r := range lk.GetAllDepositRequests(ctx, app) {
			if r.Status == liqtypes.RequestStatusNotExecuted {
				pending = pending.Add(r.DepositCoins...)
			}
		}
		for _, r := range lk.GetAllWithdrawRequests(ctx, app) {
			if r.Status == liqtypes.RequestStatusNotExecuted {
				pending = pending.Add(r.PoolCoin)
			}
		}
	}
	esc := liqtypes.GlobalEscrowAddress
	for _, c := range pending {
		have := w.Bal(esc, c.Denom).Sub(w.UnsolicitedAmt(esc, c.Denom))
		if have.LT(c.Amount) {
			return &Violation{Property: "C04", OracleID: "c04.global_escrow", Signature: "less" + tag,
				Detail: fmt.Sprintf("global escrow holds %s %s (net of unsolicited) but pending deposit/withdraw requests of all apps need %s, after %s", have, c.Denom, c.Amount, ev.Tag)}
		}
	}
	if !pending.Empty() {
		w.Stats.Probe("c04.checked_with_pending_requests")
	}
	// (2) pair escrows >= remaining offer coins of live orders
	liveOrders := 0
	for _, app := range apps {
		for _, pair := range lk.GetAllPairs(ctx, app) {
			need := sdk.Coins{}
			for _, ord := range lk.GetOrdersByPair(ctx, app, pair.Id) {
				if liveStatus(ord.Status) {
					need = need.Add(ord.RemainingOfferCoin)
					liveOrders++
				}
			}
			pe := pair.GetEscrowAddress()
			for _, c := range need {
				have := w.Bal(pe, c.Denom).Sub(w.UnsolicitedAmt(pe, c.Denom))
				if have.LT(c.Amount) {
					return &Violation{Property: "C04", OracleID: "c04.pair_escrow", Signature: "less" + tag,
						Detail: fmt.Sprintf("escrow of app %d pair %d holds %s %s (net of unsolicited) but its live orders have %s remaining, after %s", app, pair.Id, have, c.Denom, c.Amount, ev.Tag)}
				}
			}
		}
	}
	if liveOrders > 0 {
		w.Stats.Probe("c04.checked_with_live_orders")
	}
	// (3) module account == farmed (active + queued) per pool; (4) supply 0 => disabled
	mod := w.ModAddr(liqtypes.ModuleName)
	anyFarm, anyQueued, anyActive := false, false, false
	var poolsNow []pkey
	for _, app := range apps {
		for _, pl := range lk.GetAllPools(ctx, app) {
			k := pkey{app, pl.Id}
			poolsNow = append(poolsNow, k)
			farmed := sdk.ZeroInt()
			for _, af := range lk.GetAllActiveFarmers(ctx, app, pl.Id) {
				farmed = farmed.Add(af.FarmedPoolCoin.Amount)
				if af.FarmedPoolCoin.Amount.IsPositive() {
					anyActive = true
				}
			}
			for _, qf := range lk.GetAllQueuedFarmers(ctx, app, pl.Id) {
				for _, q := range qf.QueudCoins {
					farmed = farmed.Add(q.FarmedPoolCoin.Amount)
					if q.FarmedPoolCoin.Amount.IsPositive() {
						anyQueued = true
					}
				}
			}
			have := w.Bal(mod, pl.PoolCoinDenom).Sub(w.UnsolicitedAmt(mod, pl.PoolCoinDenom))
			if !have.Equal(farmed) {
				return &Violation{Property: "C04", OracleID: "c04.farmed", Signature: cmpSigInt(have, farmed) + tag,
					Detail: fmt.Sprintf("liquidity module account holds %s %s (net of unsolicited) but farmer records (active+queued) of pool %d/%d sum to %s, after %s", have, pl.PoolCoinDenom, app, pl.Id, farmed, ev.Tag)}
			}
			if farmed.IsPositive() {
				anyFarm = true
			}
			sup := w.Supply(pl.PoolCoinDenom)
			if sup.IsZero() {
				w.Stats.Probe("c04.pool_supply_zero")
				if !pl.Disabled {
					return &Violation{Property: "C04", OracleID: "c04.disabled", Signature: "supply_zero_not_disabled" + tag,
						Detail: fmt.Sprintf("pool %d/%d has pool-coin supply 0 but is not marked disabled, after %s", app, pl.Id, ev.Tag)}
				}
			}
			// (5) supply ledger for non-block events (blocks are explained per block by the tracker)
			last, seen := o.t.supply[k]
			if ev.Kind != "block" {
				if !seen {
					if !(txOK(ev, res) && isPoolCreate(o.pre.msg, app)) {
						return &Violation{Property: "C04", OracleID: "c04.supply_ledger", Signature: "new_pool_coin_without_pool_creation" + tag,
							Detail: fmt.Sprintf("pool coin %s (supply %s) appeared after %s", pl.PoolCoinDenom, sup, ev.Tag)}
					}
					w.Stats.Probe("c04.pool_created_at_runtime")
				} else if !sup.Equal(last) {
					if !(txOK(ev, res) && isImmediateRequest(o.pre.msg, app, pl.Id)) {
						return &Violation{Property: "C04", OracleID: "c04.supply_ledger", Signature: "supply_changed_by_unrelated_event" + tag,
							Detail: fmt.Sprintf("supply of %s went %s -> %s after %s, which is neither pool creation nor a deposit/withdrawal executed against that pool", pl.PoolCoinDenom, last, sup, ev.Tag)}
					}
					w.Stats.Probe("c04.supply_change_explained")
				}
			}
			o.t.supply[k] = sup
		}
	}
	if anyFarm {
		w.Stats.Probe("c04.checked_with_farmed_coins")
	}
	if anyQueued {
		w.Stats.Probe("c04.checked_with_queued_farmers")
	}
	if anyActive {
		w.Stats.Probe("c04.checked_with_active_farmers")
	}
	w.Stats.Probe("c04.checked")
	return nil
}

func isPoolCreate(m sdk.Msg, app uint64) bool {
	switch x := m.(type) {
	case *liqtypes.MsgCreatePool:
		return x.AppId == app
	case *liqtypes.MsgCreateRangedPool:
		return x.AppId == app
	}
	return false
}

func isImmediateRequest(m sdk.Msg, app, pool uint64) bool {
	switch x := m.(type) {
	case *liqtypes.MsgDepositAndFarm:
		return x.AppId == app && x.PoolId == pool
	case *liqtypes.MsgUnfarmAndWithdraw:
		return x.AppId == app && x.PoolId == pool
	}
	return false
}

// ---------- C06 ----------

var rangeBand = big.NewRat(1, 1_000_000_000_000_000) // 1e-15 relative: rounding band of the approximated square roots

func (o *dexOracle) afterC06(w *World, ev *Event, res Result) *Violation {
	// immediate execution inside a transaction
	if txOK(ev, res) && o.pre.pool != nil {
		pre := o.pre.pool
		nrx, nry, nps := w.poolBalances(pre.pool, pre.pair)
		switch m := o.pre.msg.(type) {
		case *liqtypes.MsgDepositAndFarm:
			ox, oy := m.DepositCoins.AmountOf(pre.pair.QuoteCoinDenom), m.DepositCoins.AmountOf(pre.pair.BaseCoinDenom)
			o.t.checkDeposit(w, fmt.Sprintf("deposit-and-farm into pool %d/%d at height %d", m.AppId, m.PoolId, w.Height()), pre.pool, pre.rx, pre.ry, pre.ps, ox, oy, nrx.Sub(pre.rx), nry.Sub(pre.ry), nps.Sub(pre.ps))
			w.Stats.Probe("c06.immediate_deposit_checked")
		case *liqtypes.MsgUnfarmAndWithdraw:
			o.t.checkWithdraw(w, fmt.Sprintf("unfarm-and-withdraw from pool %d/%d at height %d", m.AppId, m.PoolId, w.Height()), pre.pool, pre.rx, pre.ry, pre.ps, m.UnfarmingPoolCoin.Amount, pre.rx.Sub(nrx), pre.ry.Sub(nry), w.dexParams(m.AppId).WithdrawFeeRate)
			w.Stats.Probe("c06.immediate_withdraw_checked")
		}
		if len(o.t.vio) > 0 {
			v := o.t.vio[0]
			o.t.vio = nil
			return v
		}
	}
	// pool creation is the first deposit: it takes at most the offered coins (plus the creation fee in that denomination)
	if txOK(ev, res) && o.pre.valid {
		var offered sdk.Coins
		var app uint64
		switch m := o.pre.msg.(type) {
		case *liqtypes.MsgCreatePool:
			offered, app = m.DepositCoins, m.AppId
		case *liqtypes.MsgCreateRangedPool:
			offered, app = m.DepositCoins, m.AppId
		}
		if offered != nil {
			fee := w.dexParams(app).PoolCreationFee
			now := w.App.BankKeeper.GetAllBalances(w.Ctx(), o.pre.signer.Addr)
			w.Stats.Probe("c06.pool_creation_checked")
			for _, c := range offered {
				taken := o.pre.bals.AmountOf(c.Denom).Sub(now.AmountOf(c.Denom))
				if taken.GT(c.Amount.Add(fee.AmountOf(c.Denom))) {
					return &Violation{Property: "C06", OracleID: "c06.deposit_takes_more_than_offered", Signature: "pool_creation",
						Detail: fmt.Sprintf("%s: creator offered %s (creation fee %s) and was debited %s %s", ev.Tag, c, fee, taken, c.Denom)}
				}
			}
		}
	}
	// ranged pools: price within [min, max]
	ctx := w.Ctx()
	for _, app := range w.Dex.AppIDs {
		for _, pl := range w.App.LiquidityKeeper.GetAllPools(ctx, app) {
			if pl.Type != liqtypes.PoolTypeRanged || pl.Disabled || pl.MinPrice == nil || pl.MaxPrice == nil {
				continue
			}
			pair, _ := w.App.LiquidityKeeper.GetPair(ctx, app, pl.PairId)
			rx, ry, ps := w.poolBalances(pl, pair)
			var price sdk.Dec
			ok := func() (ok bool) {
				defer func() {
					if r := recover(); r != nil {
						ok = false
					}
				}()
				ap := pl.AMMPool(rx, ry, ps)
				if ap.IsDepleted() {
					return false
				}
				price = ap.Price()
				return true
			}()
			if !ok {
				continue
			}
			w.Stats.Probe("c06.ranged_price_checked")
			if rx.IsZero() || ry.IsZero() {
				w.Stats.Probe("c06.ranged_single_sided")
			}
			pr, lo, hi := ratDec(price), ratDec(*pl.MinPrice), ratDec(*pl.MaxPrice)
			if pr.Cmp(lo) >= 0 && pr.Cmp(hi) <= 0 {
				continue
			}
			loB := new(big.Rat).Mul(lo, new(big.Rat).Sub(big.NewRat(1, 1), rangeBand))
			hiB := new(big.Rat).Mul(hi, new(big.Rat).Add(big.NewRat(1, 1), rangeBand))
			if pr.Cmp(loB) >= 0 && pr.Cmp(hiB) <= 0 {
				w.Stats.Probe("c06.ranged_price_rounding_band")
				continue
			}
			return &Violation{Property: "C06", OracleID: "c06.ranged_price_out_of_range", Signature: cmpSigInt(price.TruncateInt(), pl.MaxPrice.TruncateInt()) + ctxTag(ev),
				Detail: fmt.Sprintf("ranged pool %d/%d: reserves (%s,%s) give price %s outside [%s, %s], after %s", app, pl.Id, rx, ry, price, pl.MinPrice, pl.MaxPrice, ev.Tag)}
		}
	}
	return nil
}

// ---------- C07 ----------

func (o *dexOracle) afterC07(w *World, ev *Event, res Result) *Violation {
	ctx := w.Ctx()
	lk := w.App.LiquidityKeeper
	p := &o.pre
	if ev.Kind == "tx" && p.valid {
		// (a) an order that is not in its placement batch can always be cancelled by its owner
		if _, isCancel := p.msg.(*liqtypes.MsgCancelOrder); isCancel && p.expectOK {
			w.Stats.Probe("c07.cancel_of_older_batch_attempted")
			if !res.Tx.OK() && ev.Fault != "tx.oog" {
				return &Violation{Property: "C07", OracleID: "c07.cancel_must_succeed", Signature: "cancel_rejected",
					Detail: fmt.Sprintf("owner's cancel of live order %d (app %d pair %d, batch %d, current batch %d) was rejected: %.120s", p.order.Id, p.order.AppId, p.order.PairId, p.order.BatchId, p.pair.CurrentBatchId, res.Tx.Log)}
			}
		}
		if res.Tx.OK() {
			if v := o.c07Tx(w, ev); v != nil {
				return v
			}
		}
	}
	// (b) nothing of a terminated order remains in escrow: escrow == sum over live orders (remaining + fee reserve)
	for _, app := range w.Dex.AppIDs {
		for _, pair := range lk.GetAllPairs(ctx, app) {
			need := sdk.Coins{}
			known := true
			n := 0
			for _, ord := range lk.GetOrdersByPair(ctx, app, pair.Id) {
				if !liveStatus(ord.Status) {
					continue
				}
				n++
				rsv, ok := o.t.reserve[okey{app, pair.Id, ord.Id}]
				if !ok {
					known = false
					break
				}
				need = need.Add(ord.RemainingOfferCoin).Add(sdk.NewCoin(ord.OfferCoin.Denom, rsv))
			}
			if !known {
				w.Stats.Probe("c07.escrow_check_skipped_unknown_order")
				continue
			}
			pe := pair.GetEscrowAddress()
			for _, d := range []string{pair.BaseCoinDenom, pair.QuoteCoinDenom} {
				have := w.Bal(pe, d).Sub(w.UnsolicitedAmt(pe, d))
				want := need.AmountOf(d)
				if !have.Equal(want) {
					return &Violation{Property: "C07", OracleID: "c07.escrow_residue", Signature: cmpSigInt(have, want) + ctxTag(ev),
						Detail: fmt.Sprintf("escrow of app %d pair %d holds %s %s (net of unsolicited) but its %d live orders account for %s (remaining offer + fee reserve), after %s", app, pair.Id, have, d, n, want, ev.Tag)}
				}
			}
			if n > 0 {
				w.Stats.Probe("c07.escrow_exact_with_live_orders")
			} else {
				w.Stats.Probe("c07.escrow_empty_checked")
			}
		}
	}
	return nil
}

func coinsDelta(pre, post sdk.Coins, denom string) sdk.Int {
	return post.AmountOf(denom).Sub(pre.AmountOf(denom))
}

func allDenoms(a, b sdk.Coins) []string {
	m := map[string]struct{}{}
	for _, c := range a {
		m[c.Denom] = struct{}{}
	}
	for _, c := range b {
		m[c.Denom] = struct{}{}
	}
	return sortedKeys(m)
}

// expectExact checks the signer's balance deltas of a successful tx against expected intervals per denom.
func (o *dexOracle) expectFlows(w *World, what string, book *flowBook, sig string) *Violation {
	p := &o.pre
	post := w.App.BankKeeper.GetAllBalances(w.Ctx(), p.signer.Addr)
	addr := p.signer.Bech()
	for _, d := range allDenoms(p.bals, post) {
		delta := coinsDelta(p.bals, post, d)
		lo, hi := sdk.ZeroInt(), sdk.ZeroInt()
		if iv := book.m[addr][d]; iv != nil {
			lo, hi = iv.lo, iv.hi
		}
		if delta.LT(lo) || delta.GT(hi) {
			return &Violation{Property: "C07", OracleID: "c07.tx_flows", Signature: sig + "." + cmpSigInt(delta, hi),
				Detail: fmt.Sprintf("%s: %s balance of %s changed by %s, expected within [%s, %s]", what, p.signer.Name, d, delta, lo, hi)}
		}
	}
	return nil
}

func (o *dexOracle) c07Tx(w *World, ev *Event) *Violation {
	ctx := w.Ctx()
	lk := w.App.LiquidityKeeper
	p := &o.pre
	addr := p.signer.Bech()
	switch m := p.msg.(type) {
	case *liqtypes.MsgLimitOrder, *liqtypes.MsgMarketOrder:
		if !p.pairOK {
			return nil
		}
		pair, _ := lk.GetPair(ctx, p.pair.AppId, p.pair.Id)
		if pair.LastOrderId != p.pair.LastOrderId+1 {
			return &Violation{Property: "C07", OracleID: "c07.placement", Signature: "no_single_new_order", Detail: fmt.Sprintf("%s succeeded but the pair's last order id went %d -> %d", ev.Tag, p.pair.LastOrderId, pair.LastOrderId)}
		}
		ord, found := lk.GetOrder(ctx, pair.AppId, pair.Id, pair.LastOrderId)
		if !found {
			return nil
		}
		rate := w.dexParams(pair.AppId).SwapFeeRate
		offer := ord.OfferCoin.Amount
		post := w.App.BankKeeper.GetAllBalances(ctx, p.signer.Addr)
		taken := coinsDelta(p.bals, post, ord.OfferCoin.Denom).Neg()
		rsv := taken.Sub(offer)
		if rsv.LT(floorMul(offer, rate)) || rsv.GT(ceilMul(offer, rate)) {
			return &Violation{Property: "C07", OracleID: "c07.placement", Signature: "taken!=offer+fee_reserve",
				Detail: fmt.Sprintf("%s order %s: offer coin %s, fee rate %s, but %s %s were taken from the orderer (reserve %s)", ev.Tag, okey{pair.AppId, pair.Id, ord.Id}, ord.OfferCoin, rate, taken, ord.OfferCoin.Denom, rsv)}
		}
		book := newFlowBook()
		book.add(addr, ord.OfferCoin.Denom, taken.Neg(), taken.Neg())
		if v := o.expectFlows(w, ev.Tag, book, "placement"); v != nil {
			return v
		}
		o.t.reserve[okey{pair.AppId, pair.Id, ord.Id}] = rsv
		w.Stats.Probe("c07.placement_checked")
		if rsv.IsPositive() {
			w.Stats.Probe("c07.placement_with_fee_reserve")
		}
		if pair.AppId != pair.Id {
			w.Stats.Probe("c07.app_id_differs_from_pair_id")
		}
		_ = m
	case *liqtypes.MsgMMOrder:
		if !p.pairOK {
			return nil
		}
		pair, _ := lk.GetPair(ctx, p.pair.AppId, p.pair.Id)
		book := newFlowBook()
		for id := p.pair.LastOrderId + 1; id <= pair.LastOrderId; id++ {
			ord, found := lk.GetOrder(ctx, pair.AppId, pair.Id, id)
			if !found {
				continue
			}
			o.t.reserve[okey{pair.AppId, pair.Id, id}] = sdk.ZeroInt() // market-making orders carry no fee reserve
			book.add(addr, ord.OfferCoin.Denom, ord.OfferCoin.Amount.Neg(), ord.OfferCoin.Amount.Neg())
		}
		w.Stats.Probe("c07.mm_placement_checked")
		if len(p.mmOld) > 0 {
			w.Stats.Probe("c07.mm_replace_with_live_predecessors")
		}
		v := o.mmCancelled(w, ev, book, "a new market-making order")
		if v2 := o.expectFlows(w, ev.Tag, book, "mm_order"); v2 != nil {
			return v2
		}
		return v
	case *liqtypes.MsgCancelMMOrder:
		book := newFlowBook()
		if len(p.mmOld) > 0 {
			w.Stats.Probe("c07.mm_cancel_with_live_orders")
		}
		v := o.mmCancelled(w, ev, book, "cancel-market-making-orders")
		if v2 := o.expectFlows(w, ev.Tag, book, "mm_cancel"); v2 != nil {
			return v2
		}
		return v
	case *liqtypes.MsgCancelOrder:
		ord, found := lk.GetOrder(ctx, m.AppId, m.PairId, m.OrderId)
		if !found || ord.Status != liqtypes.OrderStatusCanceled {
			return &Violation{Property: "C07", OracleID: "c07.cancel", Signature: "not_cancelled", Detail: fmt.Sprintf("cancel of order %d/%d/%d succeeded but the order is not in cancelled state", m.AppId, m.PairId, m.OrderId)}
		}
		key := okey{m.AppId, m.PairId, m.OrderId}
		book := newFlowBook()
		if !o.refundOf(w, book, key, ord) {
			return nil
		}
		w.Stats.Probe("c07.end.cancelled")
		if !ord.RemainingOfferCoin.IsEqual(ord.OfferCoin) {
			w.Stats.Probe("c07.end.cancelled_after_partial_fill")
		}
		return o.expectFlows(w, ev.Tag, book, "cancel")
	case *liqtypes.MsgCancelAllOrders:
		book := newFlowBook()
		n := 0
		_ = m
		inFilter := func(pair uint64) bool {
			if len(m.PairIds) == 0 {
				return true
			}
			for _, id := range m.PairIds {
				if id == pair {
					return true
				}
			}
			return false
		}
		for _, old := range p.liveOld {
			ord, found := lk.GetOrder(ctx, old.AppId, old.PairId, old.Id)
			if found && ord.Status != liqtypes.OrderStatusCanceled && m.Orderer == p.signer.Bech() && inFilter(old.PairId) {
				if cb, ok := p.pairBatch[old.PairId]; ok && old.BatchId < cb {
					// the owner's cancel-all succeeded, yet an order that had left its placement batch is still live
					return &Violation{Property: "C07", OracleID: "c07.cancel_all", Signature: "old_order_survives_cancel_all",
						Detail: fmt.Sprintf("cancel-all by the owner (app %d, pair filter %v) succeeded but order %d of pair %d (batch %d, pair's current batch %d) is still %s", m.AppId, m.PairIds, old.Id, old.PairId, old.BatchId, cb, ord.Status)}
				}
			}
			if !found || ord.Status != liqtypes.OrderStatusCanceled {
				continue
			}
			if !o.refundOf(w, book, okey{old.AppId, old.PairId, old.Id}, ord) {
				return nil
			}
			n++
		}
		if n > 0 {
			w.Stats.Probe("c07.end.cancel_all")
		}
		return o.expectFlows(w, ev.Tag, book, "cancel_all")
	}
	return nil
}

// refundOf books the refund interval of a just-terminated order; false when its fee reserve is unknown.
func (o *dexOracle) refundOf(w *World, book *flowBook, key okey, ord liqtypes.Order) bool {
	rsv, ok := o.t.reserve[key]
	if !ok {
		w.Stats.Probe("c07.terminated_order_unknown_reserve")
		return false
	}
	lo, hi := refundInterval(ord.OfferCoin.Amount, ord.RemainingOfferCoin.Amount, rsv, w.dexParams(key.app).SwapFeeRate, ord.Type == liqtypes.OrderTypeMM)
	book.add(ord.Orderer, ord.OfferCoin.Denom, lo, hi)
	delete(o.t.reserve, key)
	return true
}

// mmCancelled: every earlier live MM order of the owner in the pair must now be cancelled and refunded.
// The refunds of those that were cancelled are booked; those still live are a violation (they keep their escrow, so the
// remaining accounting stays exact and the run can continue when the finding is listed).
func (o *dexOracle) mmCancelled(w *World, ev *Event, book *flowBook, what string) *Violation {
	p := &o.pre
	lk := w.App.LiquidityKeeper
	var left []uint64
	for _, old := range p.mmOld {
		ord, found := lk.GetOrder(w.Ctx(), old.AppId, old.PairId, old.Id)
		if found && ord.Status == liqtypes.OrderStatusCanceled {
			if !o.refundOf(w, book, okey{old.AppId, old.PairId, old.Id}, ord) {
				book.unknown[p.signer.Bech()+"|"+ord.OfferCoin.Denom] = true
			}
			w.Stats.Probe("c07.end.mm_cancelled")
			continue
		}
		if found && liveStatus(ord.Status) {
			left = append(left, old.Id)
		}
	}
	if len(left) == 0 {
		return nil
	}
	w.Stats.Probe("c07.mm_orders_left_live_after_cancel")
	v := &Violation{Property: "C07", OracleID: "c07.mm_cancel", Signature: "earlier_mm_orders_stay_live", Continue: true,
		Detail: fmt.Sprintf("%s by %s in app %d pair %d succeeded, but earlier market-making orders %v of that owner in that pair are still live and were not refunded", what, p.signer.Name, p.pair.AppId, p.pair.Id, left)}
	if o.mmReported {
		return nil
	}
	o.mmReported = true
	return v
}

// ---------- C19 ----------

func (t *dexTracker) gaugePool(w *World, g rewardstypes.Gauge) (uint64, bool, bool) {
	md := g.GetLiquidityMetaData()
	if md == nil {
		return 0, false, false
	}
	return md.PoolId, md.IsMasterPool, true
}

func (t *dexTracker) checkGauges(w *World, s *dexSnap) {
	ctx := w.Ctx()
	lk := w.App.LiquidityKeeper
	rewardDenom := w.Dex.Reward.Denom
	type trig struct {
		g     rewardstypes.Gauge
		alloc sdk.Int
		paid  sdk.Int
	}
	var trigs []trig
	gauges := w.App.Rewardskeeper.GetAllGauges(ctx)
	sort.Slice(gauges, func(i, j int) bool { return gauges[i].Id < gauges[j].Id })
	for _, g := range gauges {
		old, ok := s.gauges[g.Id]
		if !ok || g.ForSwapFee {
			continue
		}
		if g.TriggeredCount == old.TriggeredCount {
			if g.DistributedAmount.Amount.GT(old.DistributedAmount.Amount) {
				t.report("C19", "c19.paid_without_epoch", "distributed_grew", fmt.Sprintf("gauge %d: distributed %s -> %s without an epoch being counted", g.Id, old.DistributedAmount, g.DistributedAmount))
			}
			if old.IsActive && !g.IsActive {
				w.Stats.Probe("c19.gauge_finished")
			}
			continue
		}
		w.Stats.Probe("c19.epoch_checked")
		d, e := g.DepositAmount.Amount, g.TotalTriggers
		paid := g.DistributedAmount.Amount.Sub(old.DistributedAmount.Amount)
		if g.TriggeredCount != old.TriggeredCount+1 {
			t.report("C19", "c19.epoch_count", "jumped", fmt.Sprintf("gauge %d: triggered count %d -> %d in one block", g.Id, old.TriggeredCount, g.TriggeredCount))
			continue
		}
		if !d.IsUint64() || e == 0 {
			continue
		}
		splits := rewardskeeper.SplitTotalAmountPerEpoch(d.Uint64(), e)
		if uint64(len(splits)) != e || u64Sum(splits).Cmp(d.BigInt()) != 0 {
			t.report("C19", "c19.split_sum", "allocations_do_not_sum_to_deposit", fmt.Sprintf("gauge %d: deposit %s over %d epochs is allocated as %v (sum %s)", g.Id, d, e, splits, u64Sum(splits)))
			continue
		}
		if d.Uint64()%e != 0 {
			w.Stats.Probe("c19.epoch_checked_with_remainder")
		}
		alloc := sdk.NewIntFromUint64(splits[g.TriggeredCount-1])
		if paid.GT(alloc) {
			t.report("C19", "c19.epoch_cap", "paid>allocation", fmt.Sprintf("gauge %d epoch %d/%d: distributed %s but the epoch's allocation is %s (deposit %s)", g.Id, g.TriggeredCount, e, paid, alloc, d))
		}
		if g.DistributedAmount.Amount.GT(d) {
			t.report("C19", "c19.cumulative", "distributed>deposit", fmt.Sprintf("gauge %d: distributed %s of deposit %s", g.Id, g.DistributedAmount, g.DepositAmount))
		}
		if paid.IsPositive() {
			w.Stats.Probe("c19.epoch_paid_something")
		}
		trigs = append(trigs, trig{g, alloc, paid})
	}
	if len(trigs) == 0 {
		return
	}
	// bank level, reward denom only (it is in no pair, so gauge payouts are its only flow inside a block)
	now := w.App.BankKeeper.GetAllBalances(ctx, w.ModAddr(rewardstypes.ModuleName))
	out := s.rewardsBal.AmountOf(rewardDenom).Sub(now.AmountOf(rewardDenom))
	sumAlloc, sumPaid := sdk.ZeroInt(), sdk.ZeroInt()
	perFarmerChecked := true
	for _, tr := range trigs {
		if tr.g.DepositAmount.Denom == rewardDenom {
			sumAlloc = sumAlloc.Add(tr.alloc)
			sumPaid = sumPaid.Add(tr.paid)
		}
	}
	if out.GT(sumAlloc) {
		t.report("C19", "c19.epoch_cap_bank", "module_paid>allocations", fmt.Sprintf("rewards module balance of %s fell by %s in the block before height %d, the epochs triggered allocate %s", rewardDenom, out, w.Height(), sumAlloc))
	}
	// per farmer bound
	bound := map[string]*big.Rat{}
	for _, tr := range trigs {
		if tr.g.DepositAmount.Denom != rewardDenom {
			continue
		}
		poolID, master, ok := t.gaugePool(w, tr.g)
		if !ok {
			perFarmerChecked = false
			continue
		}
		if master {
			w.Stats.Probe("c19.master_gauge_epoch")
			if b, ok := t.masterGaugeBounds(w, s, tr.g, poolID, tr.alloc); ok {
				for _, f := range sortedKeys(b) {
					if cur, has := bound[f]; has {
						cur.Add(cur, b[f])
					} else {
						bound[f] = b[f]
					}
				}
				continue
			}
			perFarmerChecked = false
			continue
		}
		pl, found := lk.GetPool(ctx, tr.g.AppId, poolID)
		if !found {
			perFarmerChecked = false
			continue
		}
		pair, _ := lk.GetPair(ctx, tr.g.AppId, pl.PairId)
		rx, ry, ps := w.poolBalances(pl, pair)
		farmers := lk.GetAllActiveFarmers(ctx, tr.g.AppId, poolID)
		if !ps.IsPositive() {
			perFarmerChecked = false
			continue
		}
		// share bound: value is proportional to the redeemable coins of the priced asset, an integer amount;
		// upper bound on f's share = ceil(x_f) / sum(floor(x_g)-1), maximised over the two reserve coins
		for _, f := range farmers {
			var best *big.Rat
			for _, r := range []sdk.Int{rx, ry} {
				if !r.IsPositive() {
					continue
				}
				sumLo := new(big.Int)
				var fHi *big.Int
				for _, g := range farmers {
					num := new(big.Int).Mul(r.BigInt(), g.FarmedPoolCoin.Amount.BigInt())
					q, m := new(big.Int).QuoRem(num, ps.BigInt(), new(big.Int))
					lo := new(big.Int).Sub(q, bigOne)
					if lo.Sign() < 0 {
						lo.SetInt64(0)
					}
					sumLo.Add(sumLo, lo)
					if g.Farmer == f.Farmer {
						fHi = new(big.Int).Set(q)
						if m.Sign() > 0 {
							fHi.Add(fHi, bigOne)
						}
					}
				}
				if sumLo.Sign() <= 0 || fHi == nil {
					best = nil
					break
				}
				share := new(big.Rat).SetFrac(fHi, sumLo)
				if share.Cmp(big.NewRat(1, 1)) > 0 {
					share = big.NewRat(1, 1)
				}
				if best == nil || share.Cmp(best) > 0 {
					best = share
				}
			}
			if best == nil {
				perFarmerChecked = false
				continue
			}
			b := new(big.Rat).Mul(best, ratInt(tr.alloc))
			b.Mul(b, new(big.Rat).Add(big.NewRat(1, 1), big.NewRat(1, 1_000_000_000_000)))
			b.Add(b, big.NewRat(1, 1))
			if cur, ok := bound[f.Farmer]; ok {
				cur.Add(cur, b)
			} else {
				bound[f.Farmer] = b
			}
		}
		if len(farmers) > 1 {
			w.Stats.Probe("c19.epoch_with_several_farmers")
		}
	}
	if !perFarmerChecked {
		return
	}
	for _, i := range w.Dex.Users {
		a := w.Actors[i]
		got := w.Bal(a.Addr, rewardDenom).Sub(s.bals[a.Bech()].AmountOf(rewardDenom))
		if !got.IsPositive() {
			continue
		}
		b, ok := bound[a.Bech()]
		if !ok {
			t.report("C19", "c19.payout_to_non_farmer", "paid", fmt.Sprintf("%s received %s %s in the block before height %d without an active farmed position in a gauge pool that triggered", a.Name, got, rewardDenom, w.Height()))
			continue
		}
		w.Stats.Probe("c19.farmer_payout_checked")
		if ratInt(got).Cmp(b) > 0 {
			t.report("C19", "c19.farmer_share", "payout>pro_rata", fmt.Sprintf("%s received %s %s in the block before height %d; pro-rata share of the triggered allocations by farmed value allows at most %s", a.Name, got, rewardDenom, w.Height(), b.FloatString(3)))
		}
	}
}

func (o *dexOracle) afterC19(w *World, ev *Event, res Result) *Violation {
	ctx := w.Ctx()
	rk := w.App.Rewardskeeper
	p := &o.pre
	if txOK(ev, res) && p.valid {
		if m, ok := p.msg.(*rewardstypes.MsgCreateGauge); ok {
			id := rk.GetGaugeID(ctx)
			g, found := rk.GetGaugeByID(ctx, id)
			if id != p.gaugeID+1 || !found {
				return &Violation{Property: "C19", OracleID: "c19.gauge_create", Signature: "no_new_gauge", Detail: fmt.Sprintf("gauge.create succeeded but gauge id went %d -> %d", p.gaugeID, id)}
			}
			now := w.App.BankKeeper.GetAllBalances(ctx, w.ModAddr(rewardstypes.ModuleName))
			in := coinsDelta(p.rewards, now, m.DepositAmount.Denom)
			if !in.Equal(m.DepositAmount.Amount) || !g.DepositAmount.IsEqual(m.DepositAmount) {
				return &Violation{Property: "C19", OracleID: "c19.gauge_create", Signature: "funding!=deposit",
					Detail: fmt.Sprintf("gauge %d records deposit %s, message says %s, rewards module received %s", id, g.DepositAmount, m.DepositAmount, in)}
			}
			if g.DepositAmount.Amount.IsUint64() && g.TotalTriggers > 0 {
				splits := rewardskeeper.SplitTotalAmountPerEpoch(g.DepositAmount.Amount.Uint64(), g.TotalTriggers)
				if uint64(len(splits)) != g.TotalTriggers || u64Sum(splits).Cmp(g.DepositAmount.Amount.BigInt()) != 0 {
					return &Violation{Property: "C19", OracleID: "c19.split_sum", Signature: "allocations_do_not_sum_to_deposit",
						Detail: fmt.Sprintf("gauge %d: deposit %s over %d epochs is allocated as %v (sum %s)", id, g.DepositAmount, g.TotalTriggers, splits, u64Sum(splits))}
				}
				w.Stats.Probe("c19.split_checked")
				if g.DepositAmount.Amount.Uint64()%g.TotalTriggers != 0 {
					w.Stats.Probe("c19.split_checked_with_remainder")
				}
			}
			w.Stats.Probe("c19.gauge_created")
		}
	}
	// custody: rewards module >= undistributed remainder of all active gauges (swap-fee gauges: their accumulated amount)
	need := sdk.Coins{}
	active := 0
	for _, g := range rk.GetAllGauges(ctx) {
		if !g.IsActive {
			continue
		}
		if g.ForSwapFee {
			if g.DepositAmount.IsPositive() {
				need = need.Add(g.DepositAmount)
			}
			continue
		}
		rem := g.DepositAmount.Amount.Sub(g.DistributedAmount.Amount)
		if rem.IsNegative() {
			return &Violation{Property: "C19", OracleID: "c19.cumulative", Signature: "distributed>deposit" + ctxTag(ev),
				Detail: fmt.Sprintf("gauge %d: distributed %s of deposit %s, after %s", g.Id, g.DistributedAmount, g.DepositAmount, ev.Tag)}
		}
		if rem.IsPositive() {
			need = need.Add(sdk.NewCoin(g.DepositAmount.Denom, rem))
			active++
		}
	}
	// external reward programs (none are created by the dex scenario; read so that the bound stays correct if they exist)
	for _, x := range rk.GetExternalRewardsLockers(ctx) {
		if x.IsActive && x.AvailableRewards.IsPositive() {
			need = need.Add(x.AvailableRewards)
		}
	}
	mod := w.ModAddr(rewardstypes.ModuleName)
	for _, c := range need {
		have := w.Bal(mod, c.Denom).Sub(w.UnsolicitedAmt(mod, c.Denom))
		if have.LT(c.Amount) {
			if os.Getenv("VERIF_DEBUG_C19") != "" {
				fmt.Printf("C19DEBUG h=%d rewards bal=%s unsolicited=%s\n", w.Height(), w.App.BankKeeper.GetAllBalances(ctx, mod), w.Unsolicited[mod.String()])
				for _, g := range rk.GetAllGauges(ctx) {
					fmt.Printf("  gauge %d app=%d swapfee=%v active=%v deposit=%s distributed=%s trig=%d/%d meta=%v\n", g.Id, g.AppId, g.ForSwapFee, g.IsActive, g.DepositAmount, g.DistributedAmount, g.TriggeredCount, g.TotalTriggers, g.GetLiquidityMetaData())
				}
			}
			return &Violation{Property: "C19", OracleID: "c19.custody", Signature: "less" + ctxTag(ev),
				Detail: fmt.Sprintf("rewards module holds %s %s (net of unsolicited) but active gauges / programs still owe %s, after %s", have, c.Denom, c.Amount, ev.Tag)}
		}
	}
	if active > 0 {
		w.Stats.Probe("c19.custody_checked_with_active_gauges")
	}
	return nil
}

// masterGaugeBounds: upper bound on every farmer's payout from one epoch of a master-pool gauge. A farmer of the master
// pool is eligible with min(value farmed in the master pool, sum of the values farmed in the child pools); a farmed
// position is valued as twice its redeemable amount of the pair's oracle-priced coin (quote coin first) at the oracle
// price. Redeemable amounts are integers truncated by the module: each is bracketed by [q-1, q+1].
// ok=false when the configuration is one this model does not cover (explicit child list, unpriced master pool, ...).
func (t *dexTracker) masterGaugeBounds(w *World, s *dexSnap, g rewardstypes.Gauge, masterPool uint64, alloc sdk.Int) (map[string]*big.Rat, bool) {
	ctx := w.Ctx()
	// the distribution ran inside this BeginBlock; if the same BeginBlock also moved an oracle price, the prices read now
	// may not be the ones the distribution saw: no per-farmer statement for this epoch
	for _, a := range w.Dex.Assets {
		cur := ""
		if tw, ok := w.App.MarketKeeper.GetTwa(ctx, a.ID); ok {
			cur = fmt.Sprintf("%d/%v", tw.Twa, tw.IsPriceActive)
		}
		if s.twa != nil && s.twa[a.ID] != cur {
			w.Stats.Probe("c19.master_gauge_epoch_with_price_update_skipped")
			return nil, false
		}
	}
	lk := w.App.LiquidityKeeper
	md := g.GetLiquidityMetaData()
	if md == nil || len(md.ChildPoolIds) != 0 {
		return nil, false
	}
	type iv struct{ lo, hi *big.Rat }
	// value interval of a farmed amount in a pool; ok=false if the pool has no priced coin (the module skips it)
	valuer := func(poolID uint64) (func(farmed sdk.Int) iv, bool) {
		pl, found := lk.GetPool(ctx, g.AppId, poolID)
		if !found {
			return nil, false
		}
		pair, found := lk.GetPair(ctx, g.AppId, pl.PairId)
		if !found {
			return nil, false
		}
		rx, ry, ps := w.poolBalances(pl, pair)
		if !ps.IsPositive() {
			return nil, false
		}
		asset, err := lk.GetAssetWhoseOraclePriceExists(ctx, pair.QuoteCoinDenom, pair.BaseCoinDenom)
		if err != nil {
			return nil, false
		}
		twa, found := w.App.MarketKeeper.GetTwa(ctx, asset.Id)
		if !found || !asset.Decimals.IsPositive() {
			return nil, false
		}
		r := ry
		if asset.Denom == pair.QuoteCoinDenom {
			r = rx
		}
		unit := new(big.Rat).SetFrac(new(big.Int).Mul(new(big.Int).SetUint64(twa.Twa), big.NewInt(2)), asset.Decimals.BigInt())
		quotePriced := asset.Denom == pair.QuoteCoinDenom
		_ = r
		return func(farmed sdk.Int) iv {
			// the module's own redeemable amounts (amm.Withdraw with a zero fee), valued exactly
			x, y := amm.Withdraw(rx, ry, ps, farmed, sdk.ZeroDec())
			if x.IsZero() && y.IsZero() {
				return iv{new(big.Rat), new(big.Rat)} // the module skips such a position
			}
			amt := y
			if quotePriced {
				amt = x
			}
			v := new(big.Rat).Mul(new(big.Rat).SetInt(amt.BigInt()), unit)
			return iv{v, v}
		}, true
	}
	mv, ok := valuer(masterPool)
	if !ok {
		return nil, false
	}
	mp, _ := lk.GetPool(ctx, g.AppId, masterPool)
	if mp.Disabled {
		return nil, false
	}
	var children []uint64
	for _, pl := range lk.GetAllPools(ctx, g.AppId) {
		if pl.Id != masterPool && !pl.Disabled {
			children = append(children, pl.Id)
		}
	}
	if len(children) == 0 {
		return nil, false // standard mechanism; covered by the non-master bound only when the gauge is not flagged master
	}
	farmers := lk.GetAllActiveFarmers(ctx, g.AppId, masterPool)
	if len(farmers) == 0 {
		return map[string]*big.Rat{}, true
	}
	zero := func() *big.Rat { return new(big.Rat) }
	childLo, childHi := map[string]*big.Rat{}, map[string]*big.Rat{}
	for _, f := range farmers {
		childLo[f.Farmer], childHi[f.Farmer] = zero(), zero()
	}
	for _, c := range children {
		cv, ok := valuer(c)
		if !ok {
			continue // neither coin priced: the module skips this child pool
		}
		for _, f := range farmers {
			addr, err := sdk.AccAddressFromBech32(f.Farmer)
			if err != nil {
				continue
			}
			af, found := lk.GetActiveFarmer(ctx, g.AppId, c, addr)
			if !found {
				continue
			}
			v := cv(af.FarmedPoolCoin.Amount)
			childLo[f.Farmer].Add(childLo[f.Farmer], v.lo)
			childHi[f.Farmer].Add(childHi[f.Farmer], v.hi)
		}
	}
	minRat := func(a, b *big.Rat) *big.Rat {
		if a.Cmp(b) <= 0 {
			return a
		}
		return b
	}
	sumLo := zero()
	eHi := map[string]*big.Rat{}
	for _, f := range farmers {
		m := mv(f.FarmedPoolCoin.Amount)
		sumLo.Add(sumLo, minRat(m.lo, childLo[f.Farmer]))
		eHi[f.Farmer] = minRat(m.hi, childHi[f.Farmer])
	}
	out := map[string]*big.Rat{}
	if sumLo.Sign() <= 0 {
		return nil, false
	}
	for _, f := range farmers {
		share := new(big.Rat).Quo(eHi[f.Farmer], sumLo)
		if share.Cmp(big.NewRat(1, 1)) > 0 {
			share = big.NewRat(1, 1)
		}
		// exact valuation: the payout is the floor of the share; allowance 1e-9 relative (18-decimal intermediate
		// results, float64 conversion) plus 1e-6 of a unit
		b := new(big.Rat).Mul(share, ratInt(alloc))
		b.Mul(b, new(big.Rat).Add(big.NewRat(1, 1), big.NewRat(1, 1_000_000_000)))
		b.Add(b, big.NewRat(1, 1_000_000))
		out[f.Farmer] = b
	}
	w.Stats.Probe("c19.master_gauge_per_farmer_bound")
	if len(farmers) > 1 {
		w.Stats.Probe("c19.master_gauge_with_several_farmers")
	}
	return out, true
}
