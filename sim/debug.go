package main

import (
	"fmt"
	"os"
)

var debugLiq = os.Getenv("VERIF_DEBUG_LIQ") != ""

func (t *LiqTracker) debug(w *World) {
	if !debugLiq {
		return
	}
	ctx := w.Ctx()
	off, _ := w.App.NewliqKeeper.GetLiquidationOffsetHolder(ctx, "vault-liquidations", 0)
	_, offFound := w.App.NewliqKeeper.GetLiquidationOffsetHolder(ctx, "vault-liquidations", 0)
	{
		cctx, _ := ctx.CacheContext()
		err := w.App.NewliqKeeper.Liquidate(cctx)
		off2, f2 := w.App.NewliqKeeper.GetLiquidationOffsetHolder(cctx, "vault-liquidations", 0)
		fmt.Printf("h=%d offFound=%v dry Liquidate err=%v -> offset %d found=%v batch=%d nvaults=%d\n", w.Height(), offFound, err, off2.CurrentOffset, f2, w.App.NewliqKeeper.GetParams(ctx).LiquidationBatchSize, len(w.App.VaultKeeper.GetVaults(ctx)))
	}
	for id, age := range t.unsafeAge {
		if age > 12 {
			cctx, _ := ctx.CacheContext()
			err := w.App.NewliqKeeper.LiquidateIndividualVault(cctx, id, "", false)
			_, still := w.App.VaultKeeper.GetVault(cctx, id)
			fmt.Printf("h=%d vault %d age %d offset=%d len=%d dry-run err=%v stillOpen=%v\n", w.Height(), id, age, off.CurrentOffset, w.App.VaultKeeper.GetLengthOfVault(ctx), err, still)
		}
	}
}

func debugC16(h *c16Harness) {
	if os.Getenv("VERIF_DEBUG_C16") == "" {
		return
	}
	for i := range h.w0.Digests {
		a, b, c := h.w0.Digests[i], "", ""
		if i < len(h.w1.Digests) {
			b = h.w1.Digests[i]
		}
		if i < len(h.w2.Digests) {
			c = h.w2.Digests[i]
		}
		fmt.Printf("%d\n  w0 %s\n  w1 %s\n  w2 %s\n", i, a, b, c)
	}
}
