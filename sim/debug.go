package main

import (
	"fmt"
	"os"
)

var debugLiq = os.Getenv("VERIF_DEBUG_LIQ") != ""

func (t *LiqTracker) debug(w *World) {
	if !debugLiq {
		return
	}
	ctx := w.Ctx()
	off, _ := w.App.NewliqKeeper.GetLiquidationOffsetHolder(ctx, "vault-liquidations", 0)
	_, offFound := w.App.NewliqKeeper.GetLiquidationOffsetHolder(ctx, "vault-liquidations", 0)
	{
		cctx, _ := ctx.CacheContext()
		err := w.App.NewliqKeeper.Liquidate(cctx)
		off2, f2 := w.App.NewliqKeeper.GetLiquidationOffsetHolder(cctx, "vault-liquidations", 0)
		fmt.Printf("h=%d offFound=%v dry Liquidate err=%v -> offset %d found=%v batch=%d nvaults=%d\n", w.Height(), offFound, err, off2.CurrentOffset, f2, w.App.NewliqKeeper.GetParams(ctx).LiquidationBatchSize, len(w.App.VaultKeeper.GetVaults(ctx)))
	}
	for id, age := range t.unsafeAge {
		if age > 12 {
			cctx, _ := ctx.CacheContext()
			err := w.App.NewliqKeeper.LiquidateIndividualVault(cctx, id, "", false)
			_, still := w.App.VaultKeeper.GetVault(cctx, id)
			fmt.Printf("h=%d vault %d age %d offset=%d len=%d dry-run err=%v stillOpen=%v\n", w.Height(), id, age, off.CurrentOffset, w.App.VaultKeeper.GetLengthOfVault(ctx), err, still)
		}
	}
}

func debugC16(h *c16Harness) {
	if os.Getenv("VERIF_DEBUG_C16") == "" {
		return
	}
	for i := range h.w0.Digests {
		a, b, c := h.w0.Digests[i], "", ""
		if i < len(h.w1.Digests) {
			b = h.w1.Digests[i]
		}
		if i < len(h.w2.Digests) {
			c = h.w2.Digests[i]
		}
		fmt.Printf("%d\n  w0 %s\n  w1 %s\n  w2 %s\n", i, a, b, c)
	}
}

type logMeter struct {
	faultMeter
	log []string
}

func debugGasDiff(a, b *World, ev *Event) {
	if os.Getenv("VERIF_DEBUG_GAS") == "" || ev.Kind != "tx" {
		return
	}
	run := func(w *World) []string {
		msgs, _ := w.DecodeMsgs(cloneEvent(ev))
		var lg []string
		m := &faultMeter{}
		ctx, _ := w.WCtx().CacheContext()
		var last uint64
		m.onAccess = func() {
			lg = append(lg, fmt.Sprintf("+%d", m.consumed-last))
			last = m.consumed
		}
		ctx = ctx.WithGasMeter(m)
		for _, msg := range msgs {
			h := w.App.MsgServiceRouter().Handler(msg)
			func() {
				defer func() {
					if r := recover(); r != nil {
						lg = append(lg, fmt.Sprintf("panic=%v", r))
					}
				}()
				_, err := h(ctx, msg)
				lg = append(lg, fmt.Sprintf("err=%v", err))
			}()
		}
		lg = append(lg, fmt.Sprintf("total=%d", m.consumed))
		return lg
	}
	la, lb := run(a), run(b)
	fmt.Println("handler gas primary:", la[len(la)-1], "other:", lb[len(lb)-1], "n", len(la), len(lb))
	for i := 0; i < len(la) && i < len(lb); i++ {
		if la[i] != lb[i] {
			fmt.Println("first diff at", i, la[i], lb[i])
			break
		}
	}
}

func debugVolatileDiff(a, b *World) {
	if os.Getenv("VERIF_DEBUG_GAS") == "" {
		return
	}
	ka := storeKeys(a)
	for _, name := range sortedKeys(ka) {
		sa := a.WCtx().MultiStore().GetKVStore(ka[name])
		sb := b.WCtx().MultiStore().GetKVStore(storeKeys(b)[name])
		ia, ib := sa.Iterator(nil, nil), sb.Iterator(nil, nil)
		na, nb := 0, 0
		var da, db string
		for ; ia.Valid(); ia.Next() {
			na++
			da += string(ia.Key()) + "=" + string(ia.Value()) + ";"
		}
		for ; ib.Valid(); ib.Next() {
			nb++
			db += string(ib.Key()) + "=" + string(ib.Value()) + ";"
		}
		ia.Close()
		ib.Close()
		if da != db {
			fmt.Printf("STORE DIFF %s (%T): %d vs %d entries\n", name, ka[name], na, nb)
		}
	}
}

func debugSeizeErr(w *World, id uint64) string {
	cctx, _ := w.WCtx().CacheContext()
	err := w.App.NewliqKeeper.LiquidateIndividualBorrow(cctx, id, "", false)
	return fmt.Sprint(err)
}

// debugAuc (VERIF_DEBUG_AUC): auction custody and records after every event of a replay.
func debugAuc(w *World, ev *Event, res Result) {
	if os.Getenv("VERIF_DEBUG_AUC") == "" || w.Cdp == nil {
		return
	}
	ctx := w.Ctx()
	fmt.Printf("--- h=%d after %s %s ok=%v log=%.120s\n", w.Height(), ev.Kind, ev.Tag, res.Tx.OK(), res.Tx.Log)
	fmt.Printf("    auctionsV2 bal: %s\n    liquidationsV2 bal: %s\n", w.App.BankKeeper.GetAllBalances(ctx, w.ModAddr("auctionsV2")), w.App.BankKeeper.GetAllBalances(ctx, w.ModAddr("liquidationsV2")))
	for _, a := range w.App.NewaucKeeper.GetAuctions(ctx) {
		fmt.Printf("    auction %d dutch=%v coll=%s debt=%s bonus=%s price=%s lv=%d\n", a.AuctionId, a.AuctionType, a.CollateralToken, a.DebtToken, a.BonusAmount, a.CollateralTokenAuctionPrice, a.LockedVaultId)
	}
	for _, lv := range w.App.NewliqKeeper.GetLockedVaults(ctx) {
		fmt.Printf("    locked %d type=%s target=%s fee=%s coll=%s debt=%s\n", lv.LockedVaultId, lv.InitiatorType, lv.TargetDebt, lv.FeeToBeCollected, lv.CollateralToken, lv.DebtToken)
	}
	for _, as := range w.Cdp.Assets {
		if rf, ok := w.App.NewliqKeeper.GetAppReserveFunds(ctx, w.Cdp.AppID, as.ID); ok {
			fmt.Printf("    reserve asset %d: %s\n", as.ID, rf.TokenQuantity)
		}
	}
	for _, a := range w.Actors {
		if d, ok := w.App.NewaucKeeper.GetUserLimitBidDataByAddress(ctx, a.Bech()); ok {
			for _, k := range d.LimitOrderBidKey {
				if b, ok := w.App.NewaucKeeper.GetUserLimitBidData(ctx, k.DebtTokenId, k.CollateralTokenId, k.PremiumDiscount, a.Bech()); ok {
					fmt.Printf("    limit bid %s debt=%s prem=%s\n", a.Name, b.DebtToken, b.PremiumDiscount)
				}
			}
		}
	}
	for _, pd := range w.App.NewaucKeeper.GetAllLimitBidProtocolData(ctx) {
		fmt.Printf("    limit protocol data coll=%d debt=%d bidvalue=%s\n", pd.CollateralAssetId, pd.DebtAssetId, pd.BidValue)
	}
}

func debugEsm(w *World, ev *Event, res Result) {
	if os.Getenv("VERIF_DEBUG_ESM") == "" || w.Cdp == nil {
		return
	}
	ctx := w.Ctx()
	fmt.Printf("--- h=%d t=%d after %s %s ok=%v\n", w.Height(), w.Hdr.Time.Unix(), ev.Kind, ev.Tag, res.Tx.OK())
	fmt.Printf("    vault bal: %s | esm bal: %s\n", w.App.BankKeeper.GetAllBalances(ctx, w.ModAddr("vaultV1")), w.App.BankKeeper.GetAllBalances(ctx, w.ModAddr("esmV1")))
	for _, v := range w.App.VaultKeeper.GetVaults(ctx) {
		fmt.Printf("    vault %d app=%d ext=%d in=%s out=%s\n", v.Id, v.AppId, v.ExtendedPairVaultID, v.AmountIn, v.AmountOut)
	}
	for _, st := range w.App.EsmKeeper.GetAllESMStatus(ctx) {
		fmt.Printf("    esm app=%d status=%v end=%d snap=%v vaultRed=%v stableRed=%v coll=%v share=%v\n", st.AppId, st.Status, st.EndTime.Unix(), st.SnapshotStatus, st.VaultRedemptionStatus, st.StableVaultRedemptionStatus, st.CollectorTransaction, st.ShareCalculation)
	}
}
