package main

import (
	"errors"
	"fmt"
	"runtime"
	"strings"
	"time"

	abci "github.com/cometbft/cometbft/abci/types"
	storetypes "github.com/cosmos/cosmos-sdk/store/types"
	sdk "github.com/cosmos/cosmos-sdk/types"

	comdextypes "github.com/comdex-official/comdex/types"
)

// ---------- fault meter: an infinite gas meter that can fail exactly one chosen store access ----------

var errInjected = errors.New("verif: injected store fault")

type faultMeter struct {
	consumed storetypes.Gas
	onAccess func()
}

func (m *faultMeter) GasConsumed() storetypes.Gas        { return m.consumed }
func (m *faultMeter) GasConsumedToLimit() storetypes.Gas { return m.consumed }
func (m *faultMeter) GasRemaining() storetypes.Gas       { return ^storetypes.Gas(0) - m.consumed }
func (m *faultMeter) Limit() storetypes.Gas              { return 0 }
func (m *faultMeter) ConsumeGas(amount storetypes.Gas, descriptor string) {
	m.consumed += amount
	if m.onAccess != nil {
		m.onAccess()
	}
}
func (m *faultMeter) RefundGas(amount storetypes.Gas, descriptor string) {}
func (m *faultMeter) IsPastLimit() bool                                  { return false }
func (m *faultMeter) IsOutOfGas() bool                                   { return false }
func (m *faultMeter) String() string                                     { return "faultMeter" }

// ---------- instrumented execution of the block hooks on a branch ----------

type unitRec struct {
	label    string
	accesses int
	err      bool
	depth    int
	dirty    string // non-empty: the failed unit left a visible change (first differing store)
}

type hookRun struct {
	units   []*unitRec
	escaped string
}

type faultSpec struct {
	unit   int // index in enter order
	access int // 1-based access inside that unit (innermost attribution)
	fired  bool
}

// unitLabel names the function that called ApplyFuncIfNoError.
func unitLabel() string {
	pcs := make([]uintptr, 12)
	n := runtime.Callers(3, pcs)
	frames := runtime.CallersFrames(pcs[:n])
	for {
		f, more := frames.Next()
		fn := f.Function
		if strings.Contains(fn, "comdex/x/") || strings.Contains(fn, "comdex/app") {
			if i := strings.LastIndex(fn, "comdex/"); i >= 0 {
				fn = fn[i+7:]
			}
			// strip closure suffixes
			if j := strings.Index(fn, ".func"); j >= 0 {
				fn = fn[:j]
			}
			return fn
		}
		if !more {
			break
		}
	}
	return "?"
}

func hashAllStores(w *World, ctx sdk.Context) map[string]string {
	out := map[string]string{}
	keys := storeKeys(w)
	for _, name := range sortedKeys(keys) {
		if _, ok := keys[name].(*storetypes.KVStoreKey); !ok {
			continue
		}
		st := ctx.MultiStore().GetKVStore(keys[name])
		it := st.Iterator(nil, nil)
		var th traceHasher
		for ; it.Valid(); it.Next() {
			th.add(string(it.Key()) + "\x00" + string(it.Value()))
		}
		it.Close()
		out[name] = th.hex()
	}
	return out
}

// runHooks executes EndBlocker(current height) and BeginBlocker(next height) of the whole app on ctx (a discarded branch),
// observing every ApplyFuncIfNoError unit through hook H1 and optionally failing one store access.
func runHooks(w *World, ctx sdk.Context, fault *faultSpec, checkAtomicity bool) *hookRun {
	run := &hookRun{}
	var stack []*unitRec
	var snaps []map[string]string
	plain := sdk.NewInfiniteGasMeter()
	comdextypes.VerifStepEnter = func(outer, inner sdk.Context) sdk.Context {
		u := &unitRec{label: unitLabel(), depth: len(stack)}
		idx := len(run.units)
		run.units = append(run.units, u)
		stack = append(stack, u)
		if checkAtomicity {
			if fault == nil || idx == fault.unit {
				snaps = append(snaps, hashAllStores(w, outer.WithGasMeter(plain)))
			} else {
				snaps = append(snaps, nil)
			}
		}
		m := &faultMeter{}
		m.onAccess = func() {
			if len(stack) == 0 || stack[len(stack)-1] != u {
				return // attributed to the innermost unit only
			}
			u.accesses++
			if fault != nil && !fault.fired && fault.unit == idx && fault.access == u.accesses {
				fault.fired = true
				panic(errInjected)
			}
		}
		return inner.WithGasMeter(m)
	}
	comdextypes.VerifStepExit = func(outer sdk.Context, err error) {
		if len(stack) == 0 {
			return
		}
		u := stack[len(stack)-1]
		stack = stack[:len(stack)-1]
		u.err = err != nil
		if checkAtomicity {
			before := snaps[len(snaps)-1]
			snaps = snaps[:len(snaps)-1]
			if err != nil && before != nil {
				after := hashAllStores(w, outer.WithGasMeter(plain))
				for _, k := range sortedKeys(before) {
					if before[k] != after[k] {
						u.dirty = k
						break
					}
				}
			}
		}
	}
	defer func() {
		comdextypes.VerifStepEnter = nil
		comdextypes.VerifStepExit = nil
	}()
	func() {
		defer func() {
			if r := recover(); r != nil {
				run.escaped = fmt.Sprintf("EndBlocker: %v", r)
			}
		}()
		w.App.EndBlocker(ctx, abci.RequestEndBlock{Height: w.Hdr.Height})
	}()
	if run.escaped != "" {
		return run
	}
	next := w.mkHeader(w.Hdr.Height+1, w.Hdr.Time.Add(6*time.Second))
	nctx := ctx.WithBlockHeader(next)
	func() {
		defer func() {
			if r := recover(); r != nil {
				run.escaped = fmt.Sprintf("BeginBlocker: %v", r)
			}
		}()
		w.App.BeginBlocker(nctx, abci.RequestBeginBlock{Header: next})
	}()
	return run
}

// ---------- harness ----------

type c15Harness struct {
	stdHarness
	maxInject int
	lastAuto  int64
}

func (h *c15Harness) Step(ev *Event, step int) (Result, *Violation) {
	res, v := h.stdHarness.Step(ev, step)
	if v != nil || h.w.Panicked != "" {
		return res, v
	}
	// besides the PRNG-chosen points: always enumerate when the next block is a modulo-clock boundary of the hooks
	// (swap-fee conversion every 150 blocks; limited to once per such boundary)
	auto := ev.Kind == "block" && (h.w.Height()+1)%150 == 0 && h.lastAuto != h.w.Height()
	if auto {
		h.lastAuto = h.w.Height()
		h.w.Stats.Probe("c15.auto_inject_mod150")
	}
	if (ev.Kind == "check" && ev.Tag == "c15.inject") || auto {
		if v := h.enumerate(step); v != nil {
			v.Step = step
			return res, v
		}
	}
	return res, nil
}

func (h *c15Harness) enumerate(step int) *Violation {
	w := h.w
	branch := func() sdk.Context {
		c, _ := w.WCtx().CacheContext()
		return c.WithGasMeter(sdk.NewInfiniteGasMeter())
	}
	ref := runHooks(w, branch(), nil, true)
	if ref.escaped != "" {
		return &Violation{Property: "C15", OracleID: "c15.no_panic", Signature: "hooks_panicked:" + panicSig(ref.escaped),
			Detail: fmt.Sprintf("fault-free block hooks at height %d escaped: %s", w.Height(), ref.escaped)}
	}
	w.Stats.Probe("c15.sampled_block")
	w.Stats.ProbeN("c15.units_observed", int64(len(ref.units)))
	labelCount := map[string]int{}
	total := 0
	for _, u := range ref.units {
		labelCount[u.label]++
		total += u.accesses
		if u.err {
			w.Stats.Probe("c15.unit_failed_naturally")
			if u.dirty != "" {
				return &Violation{Property: "C15", OracleID: "c15.atomic", Signature: "partial_write_visible_after_natural_failure:" + u.label,
					Detail: fmt.Sprintf("height %d: a work item of %s failed on its own (no injected fault) yet store %q differs from its content at item entry", w.Height(), u.label, u.dirty)}
			}
		}
		w.Stats.State("unit:" + u.label)
	}
	// inventory: the statement's units of work must each run as a wrapped item (counted per module, from the state the
	// hooks started from): one per auction for the auction update and for the limit-bid matching, at least one liquidation
	// item when positions exist, the incentive and emergency-shutdown hooks as a whole
	{
		ctx := w.Ctx()
		perModule := map[string]int{}
		for _, u := range ref.units {
			for _, m := range []string{"liquidationsV2", "auctionsV2", "rewards", "esm", "liquidity"} {
				if strings.HasPrefix(u.label, "x/"+m+".") || strings.HasPrefix(u.label, "x/"+m+"/") {
					perModule[m]++
				}
			}
		}
		nAuctions := len(w.App.NewaucKeeper.GetAuctions(ctx))
		nVaults := len(w.App.VaultKeeper.GetVaults(ctx))
		borrows, _ := w.App.LendKeeper.GetBorrows(ctx)
		want := map[string]int{"auctionsV2": 2 + nAuctions, "rewards": 1, "esm": 1} // the limit-bid matching may see fewer auctions (closed by the update just before)
		esmExecuted := false
		for _, st := range w.App.EsmKeeper.GetAllESMStatus(ctx) {
			esmExecuted = esmExecuted || st.Status
		}
		// after an executed shutdown the esm hook, which runs earlier in the same block, may close every vault first
		if nVaults > 0 && !esmExecuted {
			want["liquidationsV2"]++
		}
		if len(borrows) > 0 {
			want["liquidationsV2"]++
		}
		for _, m := range sortedKeys(want) {
			if perModule[m] < want[m] {
				return &Violation{Property: "C15", OracleID: "c15.inventory", Signature: "work_item_not_wrapped:" + m,
					Detail: fmt.Sprintf("height %d: block hooks of %s ran %d atomic work items, at least %d expected (%d auctions, %d vaults, %d borrows); items seen: %v", w.Height(), m, perModule[m], want[m], nAuctions, nVaults, len(borrows), labelCount)}
			}
		}
		w.Stats.Probe("c15.inventory_checked")
	}
	if total == 0 {
		return nil
	}
	// enumerate (unit, access); beyond the cap, take an evenly spaced deterministic subset
	type ua struct{ u, k int }
	var all []ua
	for i, u := range ref.units {
		for k := 1; k <= u.accesses; k++ {
			all = append(all, ua{i, k})
		}
	}
	stride := 1
	if len(all) > h.maxInject {
		stride = (len(all) + h.maxInject - 1) / h.maxInject
		w.Stats.Probe("c15.injections_sampled_not_exhaustive")
	}
	for i := 0; i < len(all); i += stride {
		f := &faultSpec{unit: all[i].u, access: all[i].k}
		run := runHooks(w, branch(), f, true)
		w.Stats.OracleEval++
		if !f.fired {
			continue // the schedule before the fault point is deterministic, so this should not happen; counted
		}
		w.Stats.Fault("hook.fail@unit,access")
		lbl := ref.units[all[i].u].label
		w.Stats.Transition("inject:" + lbl)
		if run.escaped != "" {
			return &Violation{Property: "C15", OracleID: "c15.no_panic", Signature: "injected_fault_escaped:" + lbl,
				Detail: fmt.Sprintf("height %d: failing store access %d of unit #%d (%s) escaped the block hook: %s", w.Height(), all[i].k, all[i].u, lbl, run.escaped)}
		}
		if all[i].u < len(run.units) {
			fu := run.units[all[i].u]
			if !fu.err {
				return &Violation{Property: "C15", OracleID: "c15.atomic", Signature: "fault_swallowed:" + lbl,
					Detail: fmt.Sprintf("height %d: store access %d of unit #%d (%s) failed but the unit reported success", w.Height(), all[i].k, all[i].u, lbl)}
			}
			if fu.dirty != "" {
				return &Violation{Property: "C15", OracleID: "c15.atomic", Signature: "partial_write_visible:" + lbl,
					Detail: fmt.Sprintf("height %d: unit #%d (%s) failed at store access %d yet store %q differs from its state at unit entry", w.Height(), all[i].u, lbl, all[i].k, fu.dirty)}
			}
		}
		got := 0
		for _, u := range run.units {
			if u.label == lbl {
				got++
			}
		}
		if got < labelCount[lbl] {
			return &Violation{Property: "C15", OracleID: "c15.continues", Signature: "remaining_units_skipped:" + lbl,
				Detail: fmt.Sprintf("height %d: after unit #%d (%s) failed at access %d only %d of %d units of that loop were entered", w.Height(), all[i].u, lbl, all[i].k, got, labelCount[lbl])}
		}
	}
	w.Stats.Probe("c15.block_enumerated")
	return nil
}

func c15Gens(base func(w *World) []OpGen) func(w *World) []OpGen {
	return func(w *World) []OpGen {
		g := base(w)
		g = append(g, OpGen{"c15.inject", 4, func(w *World, r *Rng) *Event {
			return &Event{Kind: "check", Tag: "c15.inject"}
		}})
		return g
	}
}

// environment faults of the C15 quantifier (flagged in the trace; only used by the C15 scenario)
func c15EnvGens() []OpGen {
	return []OpGen{
		{"env.counter", 1, func(w *World, r *Rng) *Event {
			if w.Cfg.K("env_faults") == 0 {
				return nil
			}
			d := []string{"1", "3", "-1"}[r.Intn(3)]
			return &Event{Kind: "admin", Admin: "env_counter", Tag: "env.counter", Fault: "env.counter", Args: map[string]string{"delta": d}}
		}},
		{"env.dormant_pool", 3, func(w *World, r *Rng) *Event {
			if w.Cfg.K("env_faults") == 0 {
				return nil
			}
			return w.genDormantPool(r)
		}},
		{"env.drain", 1, func(w *World, r *Rng) *Event {
			if w.Cfg.K("env_faults") == 0 {
				return nil
			}
			mod := []string{"vaultV1", "auctionsV2", "collectorV1", "lockerV1", "liquidationsV2"}[r.Intn(5)]
			return &Event{Kind: "admin", Admin: "env_drain", Tag: "env.drain", Fault: "env.drain", Args: map[string]string{"module": mod, "pct": fmt.Sprint(r.Range(10, 100))}}
		}},
	}
}

func init() {
	adminOps["env_counter"] = func(w *World, ev *Event) error {
		ctx := w.WCtx()
		n := int64(w.App.VaultKeeper.GetLengthOfVault(ctx))
		var d int64
		fmt.Sscan(ev.Args["delta"], &d)
		if n+d < 0 {
			return fmt.Errorf("negative")
		}
		w.App.VaultKeeper.SetLengthOfVault(ctx, uint64(n+d))
		return nil
	}
	adminOps["env_drain"] = func(w *World, ev *Event) error {
		ctx := w.WCtx()
		addr := w.ModAddr(ev.Args["module"])
		var pct int64
		fmt.Sscan(ev.Args["pct"], &pct)
		bal := w.App.BankKeeper.GetAllBalances(ctx, addr)
		var out sdk.Coins
		for _, c := range bal {
			a := c.Amount.MulRaw(pct).QuoRaw(100)
			if a.IsPositive() {
				out = out.Add(sdk.NewCoin(c.Denom, a))
			}
		}
		if out.IsZero() {
			return fmt.Errorf("nothing to drain")
		}
		sink := sdk.AccAddress([]byte("verif-drain-sink-addr"))
		return w.App.BankKeeper.SendCoins(ctx, addr, sink, out)
	}
}
