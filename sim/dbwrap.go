package main

import (
	dbm "github.com/cometbft/cometbft-db"
)

// snapDB wraps the in-memory database of a simulated node. cometbft-db's MemDB iterator holds the database's read lock
// (in a traversal goroutine) until it is closed; application code that iterates without a deferred Close leaks the iterator
// when a fault injected by the simulator (out-of-gas, a failing store access inside a block-hook work item) panics in the
// middle of the loop, and the next Commit then waits for the write lock for ever. That is an artefact of MemDB (the
// database of a real node keeps no lock per iterator), so the simulated disk hands out iterators over a private snapshot
// of the requested range and closes the underlying iterator at once.
type snapDB struct{ dbm.DB }

func newSimDB() dbm.DB { return &snapDB{dbm.NewMemDB()} }

type dbPair struct{ k, v []byte }

type sliceIter struct {
	items      []dbPair
	i          int
	start, end []byte
}

func (d *snapDB) snapshot(it dbm.Iterator, err error, start, end []byte) (dbm.Iterator, error) {
	if err != nil {
		return nil, err
	}
	s := &sliceIter{start: start, end: end}
	for ; it.Valid(); it.Next() {
		k, v := it.Key(), it.Value()
		s.items = append(s.items, dbPair{append([]byte(nil), k...), append([]byte(nil), v...)})
	}
	if e := it.Error(); e != nil {
		it.Close()
		return nil, e
	}
	if e := it.Close(); e != nil {
		return nil, e
	}
	return s, nil
}

func (d *snapDB) Iterator(start, end []byte) (dbm.Iterator, error) {
	it, err := d.DB.Iterator(start, end)
	return d.snapshot(it, err, start, end)
}

func (d *snapDB) ReverseIterator(start, end []byte) (dbm.Iterator, error) {
	it, err := d.DB.ReverseIterator(start, end)
	return d.snapshot(it, err, start, end)
}

func (s *sliceIter) Domain() (start []byte, end []byte) { return s.start, s.end }
func (s *sliceIter) Valid() bool                        { return s.i < len(s.items) }
func (s *sliceIter) Next() {
	if !s.Valid() {
		panic("iterator is invalid")
	}
	s.i++
}
func (s *sliceIter) Key() []byte {
	if !s.Valid() {
		panic("iterator is invalid")
	}
	return s.items[s.i].k
}
func (s *sliceIter) Value() []byte {
	if !s.Valid() {
		panic("iterator is invalid")
	}
	return s.items[s.i].v
}
func (s *sliceIter) Error() error { return nil }
func (s *sliceIter) Close() error { s.items = nil; return nil }
