package main

func auxTweak(r *Rng, cfg *Config) {
	k := cfg.Knobs
	// English lots have to close inside a short run; the V2 machinery needs the app whitelisted most of the time
	k["auction_secs"] = []int64{30, 30, 120, 600}[r.Intn(4)]
	if k["liq_v2"] == 0 && r.Chance(3, 4) {
		k["liq_v2"] = 1
	}
	k["debt_oracle"] = 1
	if k["gap_profile"] == 0 && r.Chance(1, 2) {
		k["gap_profile"] = 1
	}
}

func init() {
	props["C11"] = &PropSpec{
		ID: "C11", Level: "exploration", Scenarios: []string{"cdp"},
		Oracles:   func(w *World) []Oracle { return []Oracle{&auxObserver{}, newC11()} },
		Quick:     Budget{Runs: 144, MaxEvents: 200},
		Thorough:  Budget{Runs: 2400, MaxEvents: 400},
		Essential: []string{"c11.custody_checked_nonempty"},
		BatchProbe: []string{"c11.english_bid_checked", "c11.outbid_refund_checked", "c11.english_close_checked", "aux.surplus_closed", "aux.debt_closed",
			"c11.limit_deposit_checked", "c11.limit_withdraw_checked", "c11.limit_cancel_checked", "aux.limit_autofill", "c11.limit_total_checked_nonempty"},
		TweakCfg: func(r *Rng, cfg *Config) {
			auxTweak(r, cfg)
			cfg.Knobs["path_mode"] = []int64{pathCrash, pathSaw, pathWalk, pathCrash}[r.Intn(4)]
			if cfg.Knobs["vol"] < 8 {
				cfg.Knobs["vol"] = 8 + r.Range(0, 17)
			}
			if cfg.Knobs["aux_flags"] == 0 && r.Chance(2, 3) {
				cfg.Knobs["aux_flags"] = 1 + int64(r.Intn(4))
			}
		},
		Rule:   "one case = one seeded simulated run of the whole app in which several bidders place equal / barely improving / non-improving bids on V2 surplus and debt lots, honest users deposit, partially withdraw, cancel and get auto-filled limit bids, and (in half of the runs) an attacker sends withdraw messages with arbitrary amounts and denominations; distinct = distinct digest of (event, outcome) sequence; non-trivial = the custody ledger of the auctionsV2 account was compared with the bank balance while it held claims",
		Assume: []string{"V2 (auctionsV2) generation only; the v1 surplus/debt auctions have no block hook in this tree and are not driven", "the configured bid factor of V2 lots is the module parameter AuctionParams.BidFactor", "a full withdrawal of a limit bid may be charged either the withdrawal or the closing fee (both are 'stated')", "fees are compared inside the floor/ceil band of amount*rate"},
	}
	props["C13"] = &PropSpec{
		ID: "C13", Level: "exploration", Scenarios: []string{"cdp"},
		Oracles:   func(w *World) []Oracle { return []Oracle{&auxObserver{}, newC13()} },
		Quick:     Budget{Runs: 144, MaxEvents: 200},
		Thorough:  Budget{Runs: 2400, MaxEvents: 400},
		Essential: []string{"c13.ledger_checked_with_fees"},
		BatchProbe: []string{"c13.ledger_checked_with_fees", "c13.collector_inflow_observed", "c13.collector_outflow_observed", "c13.locker_total_checked_nonempty",
			"c13.locker_withdraw_checked", "c13.locker_close_checked", "aux.locker_reward_paid", "aux.surplus_started", "aux.surplus_closed",
			"aux.debt_started", "aux.debt_closed", "aux.limit_autofill", "aux.outbid_refund"},
		TweakCfg: func(r *Rng, cfg *Config) {
			auxTweak(r, cfg)
			if r.Chance(1, 2) {
				cfg.Knobs["path_mode"] = []int64{pathCrash, pathSaw, pathWalk}[r.Intn(3)]
				if cfg.Knobs["vol"] < 8 {
					cfg.Knobs["vol"] = 8 + r.Range(0, 17)
				}
			}
		},
		Rule:   "one case = one seeded simulated run of the whole app with locker create/deposit/withdraw/close/reward-calculation, fee-generating vault traffic, saving-rate and threshold changes, every legal combination of the collector's auction flags, surplus-fund claims, liquidation penalties and V2 surplus/debt lots; distinct = distinct digest of (event, outcome) sequence; non-trivial = the fee ledger was evaluated while recorded net fees were positive",
		Assume: []string{"bank balances are per denomination, so the fee ledger is enforced per asset summed over apps (one app has a collector table in this scenario)", "ledger granularity is one event (one transaction or one block boundary)", "V2 generation only; v1 auctions have no block hook in this tree", "emergency shutdown is not driven in this scenario"},
	}
}
