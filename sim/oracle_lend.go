package main

import (
	"strings"
	"fmt"
	"math/big"
	"runtime/debug"
	"sort"

	sdk "github.com/cosmos/cosmos-sdk/types"

	auctionsV2types "github.com/comdex-official/comdex/x/auctionsV2/types"
	lendtypes "github.com/comdex-official/comdex/x/lend/types"
	liqtypes "github.com/comdex-official/comdex/x/liquidationsV2/types"
)

// ---------- shared helpers ----------

var ulpRat = new(big.Rat).SetFrac(big.NewInt(1), oneE18)

func ratStr(r *big.Rat) string {
	f, _ := r.Float64()
	return fmt.Sprintf("%.12g", f)
}

// lendAssetInfo resolves an asset id from chain state (oracles do not depend on the plan for facts).
func (w *World) lendAsset(id uint64) (*LAsset, bool) {
	a, ok := w.App.AssetKeeper.GetAsset(w.Ctx(), id)
	if !ok {
		return nil, false
	}
	return &LAsset{ID: a.Id, Name: a.Name, Denom: a.Denom, Dec: a.Decimals}, true
}

// poolOfCollateral: the pool in which the collateral of a borrow is lent (the lend position may already be deleted).
func (w *World) poolOfCollateral(b lendtypes.BorrowAsset, pair lendtypes.Extended_Pair) (lendtypes.Pool, bool) {
	ctx := w.Ctx()
	if l, ok := w.App.LendKeeper.GetLend(ctx, b.LendingID); ok {
		return w.App.LendKeeper.GetPool(ctx, l.PoolID)
	}
	if !pair.IsInterPool {
		return w.App.LendKeeper.GetPool(ctx, pair.AssetOutPoolID)
	}
	for _, p := range w.App.LendKeeper.GetPools(ctx) {
		for _, d := range p.AssetData {
			if d.AssetTransitType == 1 && d.AssetID == pair.AssetIn {
				return p, true
			}
		}
	}
	return lendtypes.Pool{}, false
}

func transitAssets(pool lendtypes.Pool) (first, second uint64) {
	for _, d := range pool.AssetData {
		if d.AssetTransitType == 2 {
			first = d.AssetID
		}
		if d.AssetTransitType == 3 {
			second = d.AssetID
		}
	}
	return
}

func (w *World) allOraclePricesActive() bool {
	ctx := w.Ctx()
	for _, a := range w.App.AssetKeeper.GetAssets(ctx) {
		if !a.IsOraclePriceRequired {
			continue
		}
		twa, f := w.App.MarketKeeper.GetTwa(ctx, a.Id)
		if !f || !twa.IsPriceActive {
			return false
		}
	}
	return true
}

// borrowRatio returns exact debt/collateral value ratios of a borrow at the prices in force:
// rTrunc with the accrued interest truncated to whole units (what the module compares), rExact with the full stored interest.
func (w *World) borrowRatio(b lendtypes.BorrowAsset, pair lendtypes.Extended_Pair) (rTrunc, rExact, vIn *big.Rat, ok bool, why string) {
	in, ok1 := w.lendAsset(pair.AssetIn)
	out, ok2 := w.lendAsset(pair.AssetOut)
	if !ok1 || !ok2 {
		return nil, nil, nil, false, "asset missing"
	}
	vin, okIn := w.lendValue(in, b.AmountIn.Amount)
	pout, okOut := w.lendPrice(out.ID)
	if !okIn || !okOut {
		return nil, nil, nil, false, "price inactive"
	}
	if vin.Sign() <= 0 {
		return nil, nil, nil, false, "no collateral value"
	}
	debtT := b.AmountOut.Amount.Add(b.InterestAccumulated.TruncateInt())
	vT := new(big.Rat).SetFrac(new(big.Int).Mul(debtT.BigInt(), new(big.Int).SetUint64(pout)), out.Dec.BigInt())
	debtE := new(big.Rat).Add(new(big.Rat).SetInt(b.AmountOut.Amount.BigInt()), decRat(b.InterestAccumulated))
	vE := new(big.Rat).Mul(debtE, new(big.Rat).SetFrac(new(big.Int).SetUint64(pout), out.Dec.BigInt()))
	return new(big.Rat).Quo(vT, vin), new(big.Rat).Quo(vE, vin), vin, true, ""
}

// liqThresholdFor returns the liquidation threshold applicable to a borrow (e-mode, bridged), read from chain state.
func (w *World) liqThresholdFor(b lendtypes.BorrowAsset, pair lendtypes.Extended_Pair) (*big.Rat, string, bool) {
	ctx := w.Ctx()
	rs, ok := w.App.LendKeeper.GetAssetRatesParams(ctx, pair.AssetIn)
	if !ok {
		return nil, "", false
	}
	thr := rs.LiquidationThreshold
	desc := "threshold " + thr.String()
	if pair.IsEModeEnabled {
		thr = rs.ELiquidationThreshold
		desc = "e-mode threshold " + thr.String()
	}
	t := decRat(thr)
	if !b.BridgedAssetAmount.Amount.IsZero() {
		pool, ok := w.poolOfCollateral(b, pair)
		if !ok {
			return nil, "", false
		}
		first, second := transitAssets(pool)
		fa, _ := w.App.AssetKeeper.GetAsset(ctx, first)
		tid := second
		if b.BridgedAssetAmount.Denom == fa.Denom {
			tid = first
		}
		trs, ok := w.App.LendKeeper.GetAssetRatesParams(ctx, tid)
		if !ok {
			return nil, "", false
		}
		t = new(big.Rat).Mul(t, decRat(trs.LiquidationThreshold))
		desc += " x bridge threshold " + trs.LiquidationThreshold.String()
	}
	return t, desc, true
}

// borrowVerdict classifies a borrow against its liquidation threshold: "unsafe" (clearly above even with truncated interest),
// "SAFE" (clearly at or below with the full interest), "band", "unknown".
func (w *World) borrowVerdict(b lendtypes.BorrowAsset) (string, string) {
	pair, ok := w.App.LendKeeper.GetLendPair(w.Ctx(), b.PairID)
	if !ok {
		return "unknown", "pair missing"
	}
	rT, rE, vin, ok, why := w.borrowRatio(b, pair)
	if !ok {
		return "unknown", why
	}
	thr, desc, ok := w.liqThresholdFor(b, pair)
	if !ok {
		return "unknown", "threshold unavailable"
	}
	detail := fmt.Sprintf("collateral %s debt %s+%s ratio %s (exact %s) vs %s", b.AmountIn, b.AmountOut, b.InterestAccumulated, ratStr(rT), ratStr(rE), desc)
	// rounding slack of the 18-decimal representation: two values and one quotient, plus the rounded threshold product
	slack := new(big.Rat).Quo(new(big.Rat).Mul(ulpRat, big.NewRat(4, 1)), vin) // value errors relative to the collateral value
	slack.Add(slack, new(big.Rat).Mul(ulpRat, big.NewRat(3, 1)))
	lo := new(big.Rat).Sub(rT, slack)
	hi := new(big.Rat).Add(rE, slack)
	if lo.Cmp(thr) > 0 {
		return "unsafe", detail
	}
	if hi.Cmp(thr) <= 0 {
		return "SAFE", detail
	}
	return "band", detail
}

// lendLockedByBorrow: borrow id -> a live locked vault of type "lend" exists for it (the hand-over to liquidation really happened).
func (w *World) lendLockedByBorrow() map[uint64]bool {
	out := map[uint64]bool{}
	for _, lv := range w.App.NewliqKeeper.GetLockedVaults(w.Ctx()) {
		if lv.InitiatorType == "lend" {
			out[lv.OriginalVaultId] = true
		}
	}
	return out
}

// ---------- tracker: borrow seizures and settlements, block by block ----------

type lendSeizure struct {
	LockedID, BorrowID uint64
	ByKeeper           bool
	Verdict, Detail    string
	Auctions           int
	Coll               sdk.Coin
	PrevKnown          bool
	PrevAmountIn       sdk.Int
	PoolModule         string
}

type lendLiqTracker struct {
	livenessReported map[uint64]bool
	blocked          map[uint64]string // borrow id -> listed cause that blocked its seizure at some block of the current unsafe period
	prevBorrows map[uint64]lendtypes.BorrowAsset
	prevBal     map[string]sdk.Int // "module/denom"
	locked      map[uint64]uint64  // locked vault id -> borrow id
	newSeizures []*lendSeizure
	issues      []string // bank-delta mismatches found while observing
	unsafeAge   map[uint64]int
}

func newLendLiqTracker() *lendLiqTracker {
	return &lendLiqTracker{prevBorrows: map[uint64]lendtypes.BorrowAsset{}, prevBal: map[string]sdk.Int{}, locked: map[uint64]uint64{}, unsafeAge: map[uint64]int{}}
}

func (t *lendLiqTracker) unsafeIDs() []uint64 {
	ids := make([]uint64, 0, len(t.unsafeAge))
	for id := range t.unsafeAge {
		ids = append(ids, id)
	}
	sort.Slice(ids, func(i, j int) bool { return ids[i] < ids[j] })
	return ids
}

func (t *lendLiqTracker) custodyModules(w *World) []string {
	ms := []string{auctionsV2types.ModuleName}
	for _, p := range w.App.LendKeeper.GetPools(w.Ctx()) {
		ms = append(ms, p.ModuleName)
	}
	return ms
}

// snapshot records the baseline against which the next observation computes bank deltas.
func (t *lendLiqTracker) snapshot(w *World) {
	ctx := w.Ctx()
	t.prevBorrows = map[uint64]lendtypes.BorrowAsset{}
	for _, b := range w.App.LendKeeper.GetAllBorrow(ctx) {
		t.prevBorrows[b.ID] = b
	}
	t.prevBal = map[string]sdk.Int{}
	for _, m := range t.custodyModules(w) {
		for _, c := range w.App.BankKeeper.GetAllBalances(ctx, w.ModAddr(m)) {
			t.prevBal[m+"/"+c.Denom] = c.Amount
		}
	}
}

func (t *lendLiqTracker) prevBalOf(m, d string) sdk.Int {
	if v, ok := t.prevBal[m+"/"+d]; ok {
		return v
	}
	return sdk.ZeroInt()
}

// observe is called after every BeginBlock (OnBlock) and, by the C09 borrow oracle, after every tx.
func (t *lendLiqTracker) observe(w *World, byKeeper bool) {
	ctx := w.Ctx()
	if debugLiq && !byKeeper {
		off, _ := w.App.NewliqKeeper.GetLiquidationOffsetHolder(ctx, "vault-liquidations", 1)
		list, _ := w.App.LendKeeper.GetBorrows(ctx)
		fmt.Printf("OBS h=%d offset=%d list=%v ages=%v\n", w.Height(), off.CurrentOffset, list, t.unsafeAge)
		for id := range t.unsafeAge {
			cctx, _ := w.WCtx().CacheContext()
			var e2 error
			func() {
				defer func() {
					if r := recover(); r != nil {
						e2 = fmt.Errorf("panic %v", r)
					}
				}()
				e2 = w.App.NewliqKeeper.LiquidateIndividualBorrow(cctx, id, "", false)
			}()
			b2, _ := w.App.LendKeeper.GetBorrow(cctx, id)
			fmt.Printf("   dry %d: err=%v liquidated=%v\n", id, e2, b2.IsLiquidated)
		}
	}
	present := map[uint64]bool{}
	moved := map[string]sdk.Int{} // "module/denom" -> collateral that left the pool in this step
	arrived := map[string]sdk.Int{}
	var fresh []*lendSeizure
	for _, lv := range w.App.NewliqKeeper.GetLockedVaults(ctx) {
		if lv.InitiatorType != "lend" {
			continue
		}
		present[lv.LockedVaultId] = true
		if _, known := t.locked[lv.LockedVaultId]; known {
			continue
		}
		t.locked[lv.LockedVaultId] = lv.OriginalVaultId
		w.LiqSeen = true
		s := &lendSeizure{LockedID: lv.LockedVaultId, BorrowID: lv.OriginalVaultId, ByKeeper: byKeeper, Coll: lv.CollateralToken, PrevAmountIn: sdk.ZeroInt()}
		if pb, ok := t.prevBorrows[lv.OriginalVaultId]; ok {
			s.PrevKnown, s.PrevAmountIn = true, pb.AmountIn.Amount
		}
		if b, ok := w.App.LendKeeper.GetBorrow(ctx, lv.OriginalVaultId); ok {
			// the stored record carries the interest accrued up to the seizure
			s.Verdict, s.Detail = w.borrowVerdict(b)
			if pair, ok := w.App.LendKeeper.GetLendPair(ctx, b.PairID); ok {
				if pool, ok := w.poolOfCollateral(b, pair); ok {
					s.PoolModule = pool.ModuleName
				}
			}
		} else {
			s.Verdict, s.Detail = "unknown", "borrow record missing after seizure"
		}
		for _, a := range w.App.NewaucKeeper.GetAuctions(ctx) {
			if a.LockedVaultId == lv.LockedVaultId && a.AppId == lv.AppId {
				s.Auctions++
			}
		}
		if s.PoolModule != "" {
			k := s.PoolModule + "/" + s.Coll.Denom
			if cur, ok := moved[k]; ok {
				moved[k] = cur.Add(s.Coll.Amount)
			} else {
				moved[k] = s.Coll.Amount
			}
		}
		ak := auctionsV2types.ModuleName + "/" + s.Coll.Denom
		if cur, ok := arrived[ak]; ok {
			arrived[ak] = cur.Add(s.Coll.Amount)
		} else {
			arrived[ak] = s.Coll.Amount
		}
		fresh = append(fresh, s)
		w.Stats.Probe("lend.borrow_seized")
		if byKeeper {
			w.Stats.Probe("lend.borrow_seized_by_keeper_msg")
		}
	}
	if len(fresh) > 0 {
		// custody: the step's balance deltas of the pool and the auction account equal the seized collateral
		for _, k := range sortedKeys(moved) {
			var m, d string
			for i := 0; i < len(k); i++ {
				if k[i] == '/' {
					m, d = k[:i], k[i+1:]
					break
				}
			}
			delta := w.ModBal(m, d).Sub(t.prevBalOf(m, d))
			if !delta.Neg().Equal(moved[k]) {
				t.issues = append(t.issues, fmt.Sprintf("pool account %s lost %s %s in the seizure step but the seized collateral is %s", m, delta.Neg(), d, moved[k]))
			}
		}
		for _, k := range sortedKeys(arrived) {
			d := k[len(auctionsV2types.ModuleName)+1:]
			delta := w.ModBal(auctionsV2types.ModuleName, d).Sub(t.prevBalOf(auctionsV2types.ModuleName, d))
			if !delta.Equal(arrived[k]) {
				t.issues = append(t.issues, fmt.Sprintf("auction account received %s %s in the seizure step but the seized collateral is %s", delta, d, arrived[k]))
			}
		}
	}
	t.newSeizures = append(t.newSeizures, fresh...)
	ids := make([]uint64, 0, len(t.locked))
	for id := range t.locked {
		ids = append(ids, id)
	}
	sort.Slice(ids, func(i, j int) bool { return ids[i] < ids[j] })
	for _, id := range ids {
		if !present[id] {
			delete(t.locked, id)
			w.Stats.Probe("lend.auction_settled")
		}
	}
	if !byKeeper {
		t.liveness(w)
	}
	t.debugLend(w)
	t.snapshot(w)
}

// liveness bookkeeping: consecutive blocks an open borrow has been clearly unsafe while every precondition held.
func (t *lendLiqTracker) liveness(w *World) {
	ctx := w.Ctx()
	cur := map[uint64]bool{}
	pricesOK := w.allOraclePricesActive()
	for _, b := range w.App.LendKeeper.GetAllBorrow(ctx) {
		if b.IsLiquidated || !pricesOK {
			continue
		}
		app := uint64(0)
		if l, ok := w.App.LendKeeper.GetLend(ctx, b.LendingID); ok {
			app = l.AppID
		} else if w.Lend != nil {
			app = w.Lend.AppID
		}
		wl, found := w.App.NewliqKeeper.GetLiquidationWhiteListing(ctx, app)
		if !found || !wl.IsDutchActivated {
			continue
		}
		if ks, _ := w.App.EsmKeeper.GetKillSwitchData(ctx, app); ks.BreakerEnable {
			continue
		}
		if v, _ := w.borrowVerdict(b); v == "unsafe" {
			t.unsafeAge[b.ID]++
			cur[b.ID] = true
			// why would a seizure not go through right now? (dry run on a discarded branch; remembered for the whole time
			// the borrow stays unsafe, because the sweep reaches it only in some of these blocks)
			if why := t.seizureBlockedBy(w, b); why != "" {
				if t.blocked == nil {
					t.blocked = map[uint64]string{}
				}
				t.blocked[b.ID] = why
			}
		}
	}
	for id := range t.unsafeAge {
		if !cur[id] {
			delete(t.unsafeAge, id)
			delete(t.blocked, id)
		}
	}
}

// seizureBlockedBy classifies, for the listed findings only, why LiquidateIndividualBorrow cannot seize the borrow in the
// current state: "" when the dry run seizes it or fails for a reason that is not one of the listed ones.
func (t *lendLiqTracker) seizureBlockedBy(w *World, b lendtypes.BorrowAsset) (why string) {
	defer func() {
		if r := recover(); r != nil {
			why = ""
		}
	}()
	cctx, _ := w.WCtx().CacheContext()
	if _, ok := w.App.LendKeeper.GetLend(cctx, b.LendingID); !ok {
		return ":lend_position_deleted_by_an_earlier_seizure"
	}
	err := w.App.NewliqKeeper.LiquidateIndividualBorrow(cctx, b.ID, "", false)
	if err == nil {
		return ""
	}
	if strings.Contains(err.Error(), "insufficient funds") || strings.Contains(err.Error(), "is smaller than") {
		return ":pool_no_longer_holds_the_pledged_collateral"
	}
	// the module masks the underlying error; check the one cause that can be observed from outside
	if lp, ok := w.App.LendKeeper.GetLend(cctx, b.LendingID); ok {
		if pool, ok := w.App.LendKeeper.GetPool(cctx, lp.PoolID); ok {
			pair, _ := w.App.LendKeeper.GetLendPair(cctx, b.PairID)
			if as, ok := w.App.AssetKeeper.GetAsset(cctx, pair.AssetIn); ok {
				if bal := w.App.BankKeeper.GetBalance(w.Ctx(), w.ModAddr(pool.ModuleName), as.Denom); bal.Amount.LT(b.AmountIn.Amount) {
					return ":pool_no_longer_holds_the_pledged_collateral"
				}
			}
		}
	}
	return ""
}

// ---------- C09 (borrow part) ----------

type c09LendOracle struct {
	reportedZombie map[uint64]bool
}

func (o *c09LendOracle) ID() string { return "c09.liquidation.borrow" }
func (o *c09LendOracle) Before(w *World, ev *Event) {
	if t, ok := w.X["lend.liq"].(*lendLiqTracker); ok {
		t.snapshot(w)
	}
}
func (o *c09LendOracle) After(w *World, ev *Event, res Result) *Violation {
	t, ok := w.X["lend.liq"].(*lendLiqTracker)
	if !ok {
		return nil
	}
	if ev.Kind == "tx" {
		t.observe(w, true)
	}
	obs := t.newSeizures
	t.newSeizures = nil
	issues := t.issues
	t.issues = nil
	for _, s := range obs {
		w.Stats.Probe("c09l.seizure_checked")
		by := "sweep"
		if s.ByKeeper {
			by = "keeper_msg"
		}
		switch s.Verdict {
		case "SAFE":
			return &Violation{Property: "C09", OracleID: "c09l.safety", Signature: "safe_borrow_seized:" + by,
				Detail: fmt.Sprintf("borrow %d was seized by %s although it was on the safe side: %s", s.BorrowID, by, s.Detail)}
		case "band":
			w.Stats.Probe("c09l.boundary.seized_in_rounding_band")
		case "unsafe":
			w.Stats.Probe("c09l.seizure_clearly_unsafe")
		}
		if s.PrevKnown && !s.PrevAmountIn.Equal(s.Coll.Amount) {
			return &Violation{Property: "C09", OracleID: "c09l.seizure_amount", Signature: "collateral_mismatch:" + by,
				Detail: fmt.Sprintf("borrow %d recorded collateral %s, locked vault records %s", s.BorrowID, s.PrevAmountIn, s.Coll)}
		}
		if s.Auctions != 1 {
			return &Violation{Property: "C09", OracleID: "c09l.one_auction", Signature: fmt.Sprintf("auctions=%d:%s", s.Auctions, by),
				Detail: fmt.Sprintf("seizure of borrow %d opened %d auctions", s.BorrowID, s.Auctions)}
		}
	}
	// a borrow flagged as liquidated must have been handed over: exactly one locked vault with its auction
	{
		locked := w.lendLockedByBorrow()
		for _, b := range w.App.LendKeeper.GetAllBorrow(w.Ctx()) {
			if b.IsLiquidated && !locked[b.ID] {
				w.Stats.Probe("c09l.flagged_liquidated_without_locked_vault")
				if o.reportedZombie == nil {
					o.reportedZombie = map[uint64]bool{}
				}
				if !o.reportedZombie[b.ID] {
					o.reportedZombie[b.ID] = true
					v, d := w.borrowVerdict(b)
					return &Violation{Property: "C09", OracleID: "c09l.half_seizure", Signature: "flagged_liquidated_without_locked_vault_or_auction", Continue: true,
						Detail: fmt.Sprintf("borrow %d was marked liquidated after %s but no locked vault and no auction exist for it and its collateral never left the pool (verdict %s: %s)", b.ID, ev.Tag, v, d)}
				}
			}
		}
	}
	if len(issues) > 0 {
		return &Violation{Property: "C09", OracleID: "c09l.seizure_custody", Signature: "bank_delta!=recorded_collateral", Detail: issues[0]}
	}
	// bounded liveness: at most two full sweeps of the borrow list (+2 blocks of slack)
	ctx := w.Ctx()
	list, _ := w.App.LendKeeper.GetBorrows(ctx)
	n := len(list)
	batch := int(w.App.NewliqKeeper.GetParams(ctx).LiquidationBatchSize)
	if batch < 1 {
		batch = 1
	}
	bound := 2*((n+batch-1)/batch) + 2
	for _, id := range t.unsafeIDs() {
		age := t.unsafeAge[id]
		if age > 0 {
			w.Stats.Probe("c09l.liveness_clock_running")
		}
		if age > bound {
			if t.livenessReported == nil {
				t.livenessReported = map[uint64]bool{}
			}
			if t.livenessReported[id] {
				continue
			}
			// diagnosis for the signature only: why does the seizure not go through? (dry run on a discarded branch)
			why, cont := "", false
			func() {
				defer func() {
					if r := recover(); r != nil {
						if strings.Contains(fmt.Sprint(r), "division by zero") {
							why, cont = ":interest_calculation_divides_by_zero", true
						} else {
							why = ":seizure_panics"
						}
					}
				}()
				cctx, _ := w.WCtx().CacheContext()
				if err := w.App.NewliqKeeper.LiquidateIndividualBorrow(cctx, id, "", false); err != nil {
					if strings.Contains(err.Error(), "insufficient funds") || strings.Contains(err.Error(), "is smaller than") {
						why, cont = ":pool_no_longer_holds_the_pledged_collateral", true
					} else {
						why = ":seizure_fails"
						// the module masks the underlying error; check the one cause we can observe from outside
						if b, ok := w.App.LendKeeper.GetBorrow(cctx, id); ok {
							if lp, ok := w.App.LendKeeper.GetLend(cctx, b.LendingID); ok {
								if pool, ok := w.App.LendKeeper.GetPool(cctx, lp.PoolID); ok {
									have := w.App.BankKeeper.GetBalance(cctx, w.ModAddr(pool.ModuleName), b.AmountIn.Denom)
									_ = have
									pair, _ := w.App.LendKeeper.GetLendPair(cctx, b.PairID)
									if as, ok := w.App.AssetKeeper.GetAsset(cctx, pair.AssetIn); ok {
										bal := w.App.BankKeeper.GetBalance(cctx, w.ModAddr(pool.ModuleName), as.Denom)
										if bal.Amount.LT(b.AmountIn.Amount) {
											why, cont = ":pool_no_longer_holds_the_pledged_collateral", true
										}
									}
								}
							}
						}
						if debugLiq {
							fmt.Println("SEIZE ERR:", err, why)
						}
					}
				}
			}()
			if !cont && t.blocked[id] != "" {
				// during the unsafe period the seizure was blocked by a listed cause (even if it would go through right now)
				why, cont = t.blocked[id], true
			}
			if cont {
				t.livenessReported[id] = true
			}
			if debugLiq {
				if b, ok := w.App.LendKeeper.GetBorrow(ctx, id); ok {
					v, d := w.borrowVerdict(b)
					off, offFound := w.App.NewliqKeeper.GetLiquidationOffsetHolder(ctx, "vault-liquidations", 1)
					fmt.Printf("LIVENESS borrow %d verdict=%s %s\n  record=%+v\n  offset=%d found=%v list=%v\n", id, v, d, b, off.CurrentOffset, offFound, list)
					pair, _ := w.App.LendKeeper.GetLendPair(ctx, b.PairID)
					ai, _ := w.App.AssetKeeper.GetAsset(ctx, pair.AssetIn)
					ao, _ := w.App.AssetKeeper.GetAsset(ctx, pair.AssetOut)
					rp, _ := w.App.LendKeeper.GetAssetRatesParams(ctx, pair.AssetIn)
					cr, err := w.App.LendKeeper.CalculateCollateralizationRatio(ctx, b.AmountIn.Amount, ai, b.AmountOut.Amount.Add(b.InterestAccumulated.TruncateInt()), ao)
					fmt.Printf("  module: pair=%+v cr=%s err=%v liqThr=%s eThr=%s\n", pair, cr, err, rp.LiquidationThreshold, rp.ELiquidationThreshold)
					cctx, _ := w.WCtx().CacheContext()
					e2 := w.App.NewliqKeeper.LiquidateIndividualBorrow(cctx, id, "", false)
					b2, _ := w.App.LendKeeper.GetBorrow(cctx, id)
					fmt.Printf("  dry run: err=%v isLiquidated=%v\n", e2, b2.IsLiquidated)
				}
			}
			return &Violation{Property: "C09", OracleID: "c09l.liveness", Signature: "borrow_not_seized" + why, Continue: cont,
				Detail: fmt.Sprintf("borrow %d has been clearly unsafe for %d consecutive blocks with liquidation and dutch auctions enabled, all prices active and no breaker (list length %d, batch %d, bound %d)%s", id, age, n, batch, bound, why)}
		}
	}
	return nil
}

// ---------- C08 books ----------

type c08BooksOracle struct {
	reportedZombie map[uint64]bool
	// lend positions as of the start of the current event (to recognise positions deleted by a seizure)
	preLends map[uint64]lendtypes.LendAsset
	// available-to-borrow that was still recorded on lend positions deleted by a seizure, per (pool, asset): listed finding, accounted for
	lostAvail      map[paKey]sdk.Int
	reportedOrphan bool
}

func (o *c08BooksOracle) ID() string { return "c08.books" }
func (o *c08BooksOracle) Before(w *World, ev *Event) {
	o.preLends = map[uint64]lendtypes.LendAsset{}
	for _, l := range w.App.LendKeeper.GetAllLend(w.Ctx()) {
		o.preLends[l.ID] = l
	}
}

// closedByOwner: the event is a successful message with which an owner closes / empties a lend position.
func closedByOwner(w *World, ev *Event, res Result) bool {
	if ev.Kind != "tx" || !res.Tx.OK() {
		return false
	}
	msgs, err := w.DecodeMsgs(ev)
	if err != nil {
		return false
	}
	for _, m := range msgs {
		switch m.(type) {
		case *lendtypes.MsgCloseLend, *lendtypes.MsgWithdraw, *lendtypes.MsgRepayWithdraw:
			return true
		}
	}
	return false
}

type paKey struct{ pool, asset uint64 }

func (o *c08BooksOracle) After(w *World, ev *Event, res Result) *Violation {
	if ev.Kind == "band_ack" || ev.Kind == "band_resp" {
		return nil
	}
	ctx := w.Ctx()
	lk := w.App.LendKeeper
	lends := lk.GetAllLend(ctx)
	borrows := lk.GetAllBorrow(ctx)
	lendByID := map[uint64]lendtypes.LendAsset{}
	sumLend := map[paKey]sdk.Int{}
	lendIDs := map[paKey][]uint64{}
	add := func(m map[paKey]sdk.Int, k paKey, v sdk.Int) {
		if cur, ok := m[k]; ok {
			m[k] = cur.Add(v)
		} else {
			m[k] = v
		}
	}
	get := func(m map[paKey]sdk.Int, k paKey) sdk.Int {
		if v, ok := m[k]; ok {
			return v
		}
		return sdk.ZeroInt()
	}
	for _, l := range lends {
		lendByID[l.ID] = l
		k := paKey{l.PoolID, l.AssetID}
		add(sumLend, k, l.AvailableToBorrow)
		lendIDs[k] = append(lendIDs[k], l.ID)
		if l.AvailableToBorrow.IsNegative() {
			return &Violation{Property: "C08", OracleID: "c08.available", Signature: "available_to_borrow_negative" + ctxTag(ev),
				Detail: fmt.Sprintf("lend %d has AvailableToBorrow %s after %s", l.ID, l.AvailableToBorrow, ev.Tag)}
		}
	}
	// lend positions that vanished in this event without their owner closing them were deleted by a borrow seizure
	var orphan *Violation
	if o.lostAvail == nil {
		o.lostAvail = map[paKey]sdk.Int{}
	}
	if !closedByOwner(w, ev, res) {
		for _, id := range func() []uint64 {
			ids := make([]uint64, 0, len(o.preLends))
			for id := range o.preLends {
				ids = append(ids, id)
			}
			sort.Slice(ids, func(i, j int) bool { return ids[i] < ids[j] })
			return ids
		}() {
			if _, still := lendByID[id]; still {
				continue
			}
			pl := o.preLends[id]
			w.Stats.Probe("c08.books.lend_deleted_by_seizure")
			if pl.AvailableToBorrow.IsPositive() {
				add(o.lostAvail, paKey{pl.PoolID, pl.AssetID}, pl.AvailableToBorrow)
				w.Stats.Probe("c08.books.lend_deleted_by_seizure_with_available_amount")
				if !o.reportedOrphan && orphan == nil {
					o.reportedOrphan = true
					orphan = &Violation{Property: "C08", OracleID: "c08.books.lend_deleted", Signature: "seizure_deleted_lend_position_with_available_amount_or_other_borrows", Continue: true,
						Detail: fmt.Sprintf("the seizure of a borrow deleted lend position %d (pool %d asset %d, owner %s) although %s was still available to borrow on it; TotalLend keeps counting that amount, after %s", id, pl.PoolID, pl.AssetID, pl.Owner, pl.AvailableToBorrow, ev.Tag)}
				}
			}
		}
	}
	for _, k := range func() []paKey {
		ks := make([]paKey, 0, len(o.lostAvail))
		for k := range o.lostAvail {
			ks = append(ks, k)
		}
		sort.Slice(ks, func(i, j int) bool { return ks[i].pool < ks[j].pool || (ks[i].pool == ks[j].pool && ks[i].asset < ks[j].asset) })
		return ks
	}() {
		add(sumLend, k, o.lostAvail[k])
	}
	sumVar := map[paKey]sdk.Int{}
	sumStable := map[paKey]sdk.Int{}
	borrowIDs := map[paKey][]uint64{}
	anyBorrow, anyLiq := false, false
	locked := w.lendLockedByBorrow()
	var zombie *Violation
	for _, b := range borrows {
		pair, ok := lk.GetLendPair(ctx, b.PairID)
		if !ok {
			continue
		}
		ko := paKey{pair.AssetOutPoolID, pair.AssetOut}
		borrowIDs[ko] = append(borrowIDs[ko], b.ID)
		if b.IsLiquidated && locked[b.ID] {
			anyLiq = true
			continue // handed over to liquidation: neither pledged collateral nor outstanding principal of the pool
		}
		if b.IsLiquidated {
			// flagged as liquidated although nothing was handed over (no locked vault, collateral still in the pool, totals untouched):
			// listed finding; accounted for by treating the position as what the rest of the state says it is (open), then keep checking
			w.Stats.Probe("c08.books.flagged_liquidated_without_handover")
			if o.reportedZombie == nil {
				o.reportedZombie = map[uint64]bool{}
			}
			if !o.reportedZombie[b.ID] && zombie == nil {
				o.reportedZombie[b.ID] = true
				zombie = &Violation{Property: "C08", OracleID: "c08.books.liquidated_flag", Signature: "borrow_flagged_liquidated_but_totals_and_custody_unchanged", Continue: true,
					Detail: fmt.Sprintf("borrow %d (pair %d, principal %s, collateral %s) carries IsLiquidated although no locked vault / auction exists for it, its collateral is still in the pool and the published totals still contain its principal and pledged collateral, after %s", b.ID, b.PairID, b.AmountOut, b.AmountIn, ev.Tag)}
			}
		}
		anyBorrow = true
		if b.IsStableBorrow {
			add(sumStable, ko, b.AmountOut.Amount)
		} else {
			add(sumVar, ko, b.AmountOut.Amount)
		}
		if l, ok := lendByID[b.LendingID]; ok {
			add(sumLend, paKey{l.PoolID, l.AssetID}, b.AmountIn.Amount)
		} else if pool, ok := w.poolOfCollateral(b, pair); ok {
			// open borrow whose lend position was deleted by the seizure of a sibling borrow: same listed finding, accounted for
			add(sumLend, paKey{pool.PoolID, pair.AssetIn}, b.AmountIn.Amount)
			w.Stats.Probe("c08.books.open_borrow_without_lend_position")
			if !o.reportedOrphan && orphan == nil {
				o.reportedOrphan = true
				orphan = &Violation{Property: "C08", OracleID: "c08.books.lend_deleted", Signature: "seizure_deleted_lend_position_with_available_amount_or_other_borrows", Continue: true,
					Detail: fmt.Sprintf("open borrow %d (collateral %s) refers to lend position %d which was deleted by the seizure of another borrow; its pledged collateral is still counted in TotalLend, after %s", b.ID, b.AmountIn, b.LendingID, ev.Tag)}
			}
		}
	}
	for _, st := range lk.GetAllAssetStatsByPoolIDAndAssetID(ctx) {
		k := paKey{st.PoolID, st.AssetID}
		if want := get(sumLend, k); !st.TotalLend.Equal(want) {
			return &Violation{Property: "C08", OracleID: "c08.books.total_lend", Signature: cmpSigInt(st.TotalLend, want) + ctxTag(ev),
				Detail: fmt.Sprintf("pool %d asset %d: published TotalLend %s != %s = sum over lend positions of available-to-borrow + collateral pledged to their open, not-liquidated borrows, after %s", st.PoolID, st.AssetID, st.TotalLend, want, ev.Tag)}
		}
		if want := get(sumVar, k); !st.TotalBorrowed.Equal(want) {
			return &Violation{Property: "C08", OracleID: "c08.books.total_borrowed", Signature: cmpSigInt(st.TotalBorrowed, want) + ctxTag(ev),
				Detail: fmt.Sprintf("pool %d asset %d: published TotalBorrowed %s != %s = sum of principal of open, not-liquidated variable borrows, after %s", st.PoolID, st.AssetID, st.TotalBorrowed, want, ev.Tag)}
		}
		if want := get(sumStable, k); !st.TotalStableBorrowed.Equal(want) {
			return &Violation{Property: "C08", OracleID: "c08.books.total_stable_borrowed", Signature: cmpSigInt(st.TotalStableBorrowed, want) + ctxTag(ev),
				Detail: fmt.Sprintf("pool %d asset %d: published TotalStableBorrowed %s != %s = sum of principal of open, not-liquidated stable borrows, after %s", st.PoolID, st.AssetID, st.TotalStableBorrowed, want, ev.Tag)}
		}
		have := append([]uint64(nil), st.LendIds...)
		sort.Slice(have, func(i, j int) bool { return have[i] < have[j] })
		want := append([]uint64(nil), lendIDs[k]...)
		sort.Slice(want, func(i, j int) bool { return want[i] < want[j] })
		if fmt.Sprint(have) != fmt.Sprint(want) {
			return &Violation{Property: "C08", OracleID: "c08.books.lend_ids", Signature: "lend_ids" + ctxTag(ev),
				Detail: fmt.Sprintf("pool %d asset %d lists lend ids %v but the stored lend positions are %v, after %s", st.PoolID, st.AssetID, have, want, ev.Tag)}
		}
		haveB := append([]uint64(nil), st.BorrowIds...)
		sort.Slice(haveB, func(i, j int) bool { return haveB[i] < haveB[j] })
		wantB := append([]uint64(nil), borrowIDs[k]...)
		sort.Slice(wantB, func(i, j int) bool { return wantB[i] < wantB[j] })
		if fmt.Sprint(haveB) != fmt.Sprint(wantB) {
			return &Violation{Property: "C08", OracleID: "c08.books.borrow_ids", Signature: "borrow_ids" + ctxTag(ev),
				Detail: fmt.Sprintf("pool %d asset %d lists borrow ids %v but the stored borrow positions are %v, after %s", st.PoolID, st.AssetID, haveB, wantB, ev.Tag)}
		}
	}
	if len(lends) > 0 {
		w.Stats.Probe("c08.books_checked_with_lends")
	}
	if anyBorrow {
		w.Stats.Probe("c08.books_checked_with_borrows")
	}
	if anyLiq {
		w.Stats.Probe("c08.books_checked_with_liquidated")
	}
	if zombie != nil {
		return zombie
	}
	return orphan
}

// ---------- C08 LTV / pledged collateral ----------

type c08LtvOracle struct {
	pre struct {
		valid      bool
		kind       string // borrow | alt | draw | deposit_borrow | withdraw | close_lend | repay_withdraw
		owner      string
		pairID     uint64
		borrowID   uint64
		lendID     uint64
		existed    bool // borrow/alt: a borrow for the pair existed before (deposit+draw path)
		pricesOK   bool
		loanDenom  string
		userLoan   sdk.Int
		poolLoan   sdk.Int
		borrow     lendtypes.BorrowAsset
		lend       lendtypes.LendAsset
		lendFound  bool
		pledged    map[uint64]sdk.Int
		userAsset  sdk.Int
		userCToken sdk.Int
		assetDenom string
		cDenom     string
	}
}

func (o *c08LtvOracle) ID() string { return "c08.ltv" }

func (w *World) pledgedTo(lendID uint64) map[uint64]sdk.Int {
	out := map[uint64]sdk.Int{}
	for _, b := range w.App.LendKeeper.GetAllBorrow(w.Ctx()) {
		if b.LendingID == lendID {
			out[b.ID] = b.AmountIn.Amount
		}
	}
	return out
}

func (w *World) borrowOfOwnerByPair(owner string, pairID uint64) (lendtypes.BorrowAsset, bool) {
	ctx := w.Ctx()
	for _, m := range w.App.LendKeeper.GetUserTotalMappingData(ctx, owner) {
		for _, id := range m.BorrowId {
			if b, ok := w.App.LendKeeper.GetBorrow(ctx, id); ok && b.PairID == pairID {
				return b, true
			}
		}
	}
	return lendtypes.BorrowAsset{}, false
}

func (o *c08LtvOracle) Before(w *World, ev *Event) {
	o.pre.valid = false
	if ev.Kind != "tx" {
		return
	}
	msgs, err := w.DecodeMsgs(ev)
	if err != nil || len(msgs) != 1 {
		return
	}
	ctx := w.Ctx()
	lk := w.App.LendKeeper
	p := &o.pre
	p.pledged = nil
	p.lendFound = false
	actor := w.Actors[ev.Actor].Addr
	setPair := func(pairID uint64) bool {
		pair, ok := lk.GetLendPair(ctx, pairID)
		if !ok {
			return false
		}
		out, ok := w.lendAsset(pair.AssetOut)
		if !ok {
			return false
		}
		pool, ok := lk.GetPool(ctx, pair.AssetOutPoolID)
		if !ok {
			return false
		}
		p.pairID = pairID
		p.loanDenom = out.Denom
		p.userLoan = w.Bal(actor, out.Denom)
		p.poolLoan = w.ModBal(pool.ModuleName, out.Denom)
		_, ok1 := w.lendPrice(pair.AssetIn)
		_, ok2 := w.lendPrice(pair.AssetOut)
		p.pricesOK = ok1 && ok2
		return true
	}
	setLend := func(id uint64) {
		p.lendID = id
		p.lend, p.lendFound = lk.GetLend(ctx, id)
		p.pledged = w.pledgedTo(id)
		if p.lendFound {
			if a, ok := w.lendAsset(p.lend.AssetID); ok {
				p.assetDenom = a.Denom
				p.userAsset = w.Bal(actor, a.Denom)
				if rs, ok := lk.GetAssetRatesParams(ctx, p.lend.AssetID); ok {
					if c, ok := w.lendAsset(rs.CAssetID); ok {
						p.cDenom = c.Denom
						p.userCToken = w.Bal(actor, c.Denom)
					}
				}
			}
		}
	}
	switch m := msgs[0].(type) {
	case *lendtypes.MsgBorrow:
		p.kind, p.owner = "borrow", m.Borrower
		if !setPair(m.PairId) {
			return
		}
		_, p.existed = w.borrowOfOwnerByPair(m.Borrower, m.PairId)
	case *lendtypes.MsgBorrowAlternate:
		p.kind, p.owner = "alt", m.Lender
		if !setPair(m.PairId) {
			return
		}
		_, p.existed = w.borrowOfOwnerByPair(m.Lender, m.PairId)
	case *lendtypes.MsgDraw:
		p.kind, p.owner, p.borrowID = "draw", m.Borrower, m.BorrowId
		b, ok := lk.GetBorrow(ctx, m.BorrowId)
		if !ok {
			return
		}
		p.borrow = b
		if !setPair(b.PairID) {
			return
		}
		p.existed = true
	case *lendtypes.MsgDepositBorrow:
		p.kind, p.owner, p.borrowID = "deposit_borrow", m.Borrower, m.BorrowId
		b, ok := lk.GetBorrow(ctx, m.BorrowId)
		if !ok {
			return
		}
		p.borrow = b
		setLend(b.LendingID)
	case *lendtypes.MsgWithdraw:
		p.kind, p.owner = "withdraw", m.Lender
		setLend(m.LendId)
	case *lendtypes.MsgCloseLend:
		p.kind, p.owner = "close_lend", m.Lender
		setLend(m.LendId)
	case *lendtypes.MsgRepayWithdraw:
		p.kind, p.owner, p.borrowID = "repay_withdraw", m.Borrower, m.BorrowId
		b, ok := lk.GetBorrow(ctx, m.BorrowId)
		if !ok {
			return
		}
		p.borrow = b
		setLend(b.LendingID)
	default:
		return
	}
	p.valid = true
}

// ltvFor returns the LTV of the collateral asset applicable to a pair (e-mode aware), read from chain state.
func (w *World) ltvFor(pair lendtypes.Extended_Pair) (sdk.Dec, bool) {
	rs, ok := w.App.LendKeeper.GetAssetRatesParams(w.Ctx(), pair.AssetIn)
	if !ok {
		return sdk.Dec{}, false
	}
	if pair.IsEModeEnabled {
		return rs.ELtv, true
	}
	return rs.Ltv, true
}

func (o *c08LtvOracle) After(w *World, ev *Event, res Result) *Violation {
	p := &o.pre
	if !p.valid || !res.Tx.OK() {
		return nil
	}
	ctx := w.Ctx()
	lk := w.App.LendKeeper
	actor := w.Actors[ev.Actor].Addr
	switch p.kind {
	case "borrow", "alt", "draw":
		var b lendtypes.BorrowAsset
		var ok bool
		if p.kind == "draw" {
			b, ok = lk.GetBorrow(ctx, p.borrowID)
		} else {
			b, ok = w.borrowOfOwnerByPair(p.owner, p.pairID)
		}
		if !ok {
			return nil
		}
		pair, ok := lk.GetLendPair(ctx, b.PairID)
		if !ok {
			return nil
		}
		if !p.pricesOK {
			return &Violation{Property: "C08", OracleID: "c08.ltv.inactive_price", Signature: p.kind,
				Detail: fmt.Sprintf("%s on pair %d succeeded although an oracle price it needs was not active", p.kind, b.PairID)}
		}
		received := w.Bal(actor, p.loanDenom).Sub(p.userLoan)
		w.Stats.Probe("c08.ltv_checked")
		if received.GT(p.poolLoan) {
			return &Violation{Property: "C08", OracleID: "c08.ltv.pool_holds_loan", Signature: p.kind,
				Detail: fmt.Sprintf("%s: borrower received %s%s but the lending pool held only %s before the message", p.kind, received, p.loanDenom, p.poolLoan)}
		}
		rT, _, vin, ok, _ := w.borrowRatio(b, pair)
		if !ok {
			return nil
		}
		ltv, ok := w.ltvFor(pair)
		if !ok {
			return nil
		}
		single := decRat(ltv)
		applicable := new(big.Rat).Set(single)
		desc := "LTV " + ltv.String()
		newCross := false
		if pair.IsInterPool && !b.BridgedAssetAmount.Amount.IsZero() {
			pool, okp := w.poolOfCollateral(b, pair)
			if okp {
				first, second := transitAssets(pool)
				fa, _ := w.App.AssetKeeper.GetAsset(ctx, first)
				tid := second
				if b.BridgedAssetAmount.Denom == fa.Denom {
					tid = first
				}
				if trs, ok := lk.GetAssetRatesParams(ctx, tid); ok {
					chained := new(big.Rat).Mul(single, decRat(trs.Ltv))
					w.Stats.Probe("c08.ltv_crosspool_checked")
					if !p.existed {
						// a new cross-pool borrow: the chained LTV the borrow path documents
						applicable = chained
						desc += " x bridge LTV " + trs.Ltv.String()
						newCross = true
					} else if new(big.Rat).Sub(rT, ulpRat).Cmp(chained) > 0 {
						// the draw path checks the collateral asset's own LTV only; the statement does not fix which one applies: counted
						w.Stats.Probe("c08.ltv.crosspool_draw_above_chained_ltv")
					}
				}
			}
		}
		// rounding band: value errors of the 18-decimal representation; cross-pool additionally one smallest unit of each asset involved
		slack := new(big.Rat).Quo(new(big.Rat).Mul(ulpRat, big.NewRat(4, 1)), vin)
		slack.Add(slack, new(big.Rat).Mul(ulpRat, big.NewRat(3, 1)))
		if newCross {
			unit := new(big.Rat)
			for _, id := range []uint64{pair.AssetIn, pair.AssetOut} {
				if a, ok := w.lendAsset(id); ok {
					if v, ok := w.lendValue(a, sdk.OneInt()); ok {
						unit.Add(unit, v)
					}
				}
			}
			if ta := w.Lend; ta != nil {
				if a := ta.assetByDenom(b.BridgedAssetAmount.Denom); a != nil {
					if v, ok := w.lendValue(a, sdk.OneInt()); ok {
						unit.Add(unit, v)
					}
				}
			}
			slack.Add(slack, new(big.Rat).Quo(unit, vin))
		}
		lo := new(big.Rat).Sub(rT, slack)
		if lo.Cmp(applicable) > 0 {
			return &Violation{Property: "C08", OracleID: "c08.ltv.bound", Signature: p.kind + map[bool]string{true: ":crosspool", false: ""}[newCross],
				Detail: fmt.Sprintf("after %s borrow %d: collateral %s, debt %s + interest %s => debt/collateral value ratio %s > %s", p.kind, b.ID, b.AmountIn, b.AmountOut, b.InterestAccumulated, ratStr(rT), desc)}
		}
		near := new(big.Rat).Mul(applicable, big.NewRat(999_999, 1_000_000))
		if rT.Cmp(near) >= 0 {
			w.Stats.Probe("c08.boundary.ltv_near")
		}
	case "deposit_borrow":
		b, ok := lk.GetBorrow(ctx, p.borrowID)
		l, ok2 := lk.GetLend(ctx, p.lendID)
		if !ok || !ok2 || !p.lendFound {
			return nil
		}
		w.Stats.Probe("c08.deposit_borrow_checked")
		added := b.AmountIn.Amount.Sub(p.borrow.AmountIn.Amount)
		taken := p.lend.AvailableToBorrow.Sub(l.AvailableToBorrow)
		if !added.Equal(taken) || l.AvailableToBorrow.IsNegative() {
			return &Violation{Property: "C08", OracleID: "c08.pledge", Signature: "deposit_borrow_pledge_mismatch",
				Detail: fmt.Sprintf("deposit-borrow on borrow %d: pledged collateral grew by %s but available-to-borrow of lend %d fell by %s (now %s)", b.ID, added, l.ID, taken, l.AvailableToBorrow)}
		}
	case "withdraw", "close_lend", "repay_withdraw":
		if !p.lendFound {
			return nil
		}
		w.Stats.Probe("c08.withdraw_checked")
		after := w.pledgedTo(p.lendID)
		for _, id := range sortedU64Int(p.pledged) {
			if p.kind == "repay_withdraw" && id == p.borrowID {
				continue
			}
			v, still := after[id]
			if !still || !v.Equal(p.pledged[id]) {
				return &Violation{Property: "C08", OracleID: "c08.pledge", Signature: p.kind + "_changed_pledged_collateral",
					Detail: fmt.Sprintf("%s on lend %d changed the collateral pledged to open borrow %d from %s to %v (still stored: %v)", p.kind, p.lendID, id, p.pledged[id], v, still)}
			}
		}
		l, exists := lk.GetLend(ctx, p.lendID)
		if exists && l.AvailableToBorrow.IsNegative() {
			return &Violation{Property: "C08", OracleID: "c08.available", Signature: p.kind + "_available_negative",
				Detail: fmt.Sprintf("%s left lend %d with AvailableToBorrow %s", p.kind, p.lendID, l.AvailableToBorrow)}
		}
		if !exists {
			open := 0
			for range after {
				open++
			}
			if p.kind == "repay_withdraw" {
				if _, ok := after[p.borrowID]; ok {
					open--
				}
			}
			if open > 0 {
				return &Violation{Property: "C08", OracleID: "c08.pledge", Signature: p.kind + "_closed_lend_with_open_borrow",
					Detail: fmt.Sprintf("%s removed lend %d although %d borrows still have collateral pledged from it", p.kind, p.lendID, open)}
			}
		}
		if p.kind != "repay_withdraw" && p.assetDenom != "" && p.cDenom != "" {
			// released amount from observed balances: received assets; reward = cToken delta + cTokens burned for the release
			received := w.Bal(actor, p.assetDenom).Sub(p.userAsset)
			reward := w.Bal(actor, p.cDenom).Sub(p.userCToken).Add(received)
			if reward.IsNegative() {
				reward = sdk.ZeroInt()
			}
			if received.GT(p.lend.AvailableToBorrow.Add(reward)) {
				return &Violation{Property: "C08", OracleID: "c08.pledge", Signature: p.kind + "_released_more_than_available",
					Detail: fmt.Sprintf("%s on lend %d paid out %s%s although only %s (+%s rewards accrued in the message) was available; pledged collateral %v", p.kind, p.lendID, received, p.assetDenom, p.lend.AvailableToBorrow, reward, p.pledged)}
			}
			if len(p.pledged) > 0 {
				w.Stats.Probe("c08.withdraw_with_pledged_collateral")
			}
		}
	}
	return nil
}

func sortedU64Int(m map[uint64]sdk.Int) []uint64 {
	ids := make([]uint64, 0, len(m))
	for id := range m {
		ids = append(ids, id)
	}
	sort.Slice(ids, func(i, j int) bool { return ids[i] < ids[j] })
	return ids
}

// ---------- C18 (lend part): accrual from observed position records ----------

type c18LendAccrual struct {
	pre struct {
		valid    bool
		kind     string // calc | draw | deposit_borrow | other
		owner    string
		borrowID uint64
		borrows  map[uint64]lendtypes.BorrowAsset
		lends    map[uint64]lendtypes.LendAsset
		lendTrk  map[uint64]sdk.Dec
		now      int64
	}
	lastRewards map[uint64]sdk.Int
	reportedNeg map[uint64]bool
}

func (o *c18LendAccrual) ID() string { return "c18.lend_accrual" }

func (o *c18LendAccrual) Before(w *World, ev *Event) {
	p := &o.pre
	p.valid = false
	if ev.Kind != "tx" {
		return
	}
	msgs, err := w.DecodeMsgs(ev)
	if err != nil || len(msgs) != 1 {
		return
	}
	switch m := msgs[0].(type) {
	case *lendtypes.MsgCalculateInterestAndRewards:
		p.kind, p.owner = "calc", m.Borrower
	case *lendtypes.MsgDraw:
		p.kind, p.owner, p.borrowID = "draw", m.Borrower, m.BorrowId
	case *lendtypes.MsgDepositBorrow:
		p.kind, p.owner, p.borrowID = "deposit_borrow", m.Borrower, m.BorrowId
	default:
		return
	}
	ctx := w.Ctx()
	lk := w.App.LendKeeper
	p.borrows = map[uint64]lendtypes.BorrowAsset{}
	p.lends = map[uint64]lendtypes.LendAsset{}
	p.lendTrk = map[uint64]sdk.Dec{}
	for _, m := range lk.GetUserTotalMappingData(ctx, p.owner) {
		if l, ok := lk.GetLend(ctx, m.LendId); ok {
			p.lends[l.ID] = l
			if t, ok := lk.GetLendRewardTracker(ctx, l.ID); ok {
				p.lendTrk[l.ID] = t.RewardsAccumulated
			}
		}
		for _, id := range m.BorrowId {
			if b, ok := lk.GetBorrow(ctx, id); ok {
				p.borrows[b.ID] = b
			}
		}
	}
	p.now = ctx.BlockTime().Unix()
	p.valid = true
}

func (o *c18LendAccrual) After(w *World, ev *Event, res Result) *Violation {
	if ev.Kind == "band_ack" || ev.Kind == "band_resp" {
		return nil
	}
	ctx := w.Ctx()
	lk := w.App.LendKeeper
	if o.lastRewards == nil {
		o.lastRewards = map[uint64]sdk.Int{}
	}
	// every stored accrual quantity is non-negative, after every event
	for _, b := range lk.GetAllBorrow(ctx) {
		if b.InterestAccumulated.IsNegative() {
			w.Stats.Probe("c18l.borrow_interest_negative_observed")
			if o.reportedNeg == nil {
				o.reportedNeg = map[uint64]bool{}
			}
			if !o.reportedNeg[b.ID] {
				// listed finding (reserve share larger than the position's own interest is subtracted on a small repayment); one report per borrow
				o.reportedNeg[b.ID] = true
				trk, _ := lk.GetBorrowInterestTracker(ctx, b.ID)
				return &Violation{Property: "C18", OracleID: "c18l.nonneg", Signature: "borrow_interest_negative", Continue: true,
					Detail: fmt.Sprintf("borrow %d (stable=%v, principal %s) has accrued interest %s after %s (reserve share of interest on record: %s)", b.ID, b.IsStableBorrow, b.AmountOut, b.InterestAccumulated, ev.Tag, trk.ReservePoolInterest)}
			}
		}
		if t, ok := lk.GetBorrowInterestTracker(ctx, b.ID); ok && t.ReservePoolInterest.IsNegative() {
			return &Violation{Property: "C18", OracleID: "c18l.nonneg", Signature: "reserve_share_negative" + ctxTag(ev),
				Detail: fmt.Sprintf("borrow %d has reserve share of interest %s after %s", b.ID, t.ReservePoolInterest, ev.Tag)}
		}
	}
	seen := map[uint64]bool{}
	for _, l := range lk.GetAllLend(ctx) {
		seen[l.ID] = true
		if t, ok := lk.GetLendRewardTracker(ctx, l.ID); ok && t.RewardsAccumulated.IsNegative() {
			return &Violation{Property: "C18", OracleID: "c18l.nonneg", Signature: "lend_reward_fraction_negative" + ctxTag(ev),
				Detail: fmt.Sprintf("lend %d carries reward fraction %s after %s", l.ID, t.RewardsAccumulated, ev.Tag)}
		}
		if last, ok := o.lastRewards[l.ID]; ok && !l.TotalRewards.IsNil() && l.TotalRewards.LT(last) {
			return &Violation{Property: "C18", OracleID: "c18l.nonneg", Signature: "lend_rewards_decreased" + ctxTag(ev),
				Detail: fmt.Sprintf("lend %d total rewards fell from %s to %s after %s", l.ID, last, l.TotalRewards, ev.Tag)}
		}
		if !l.TotalRewards.IsNil() {
			o.lastRewards[l.ID] = l.TotalRewards
		}
	}
	for id := range o.lastRewards {
		if !seen[id] {
			delete(o.lastRewards, id)
		}
	}
	p := &o.pre
	if !p.valid || !res.Tx.OK() {
		return nil
	}
	checkBorrow := func(before lendtypes.BorrowAsset) *Violation {
		after, ok := lk.GetBorrow(ctx, before.ID)
		if !ok || before.IsLiquidated || after.IsLiquidated {
			return nil
		}
		d := after.InterestAccumulated.Sub(before.InterestAccumulated)
		w.Stats.Probe("c18l.borrow_interest_checked")
		if d.IsNegative() {
			return &Violation{Property: "C18", OracleID: "c18l.borrow_interest", Signature: "negative_accrual:" + p.kind,
				Detail: fmt.Sprintf("%s changed the accrued interest of borrow %d by %s (from %s to %s)", p.kind, before.ID, d, before.InterestAccumulated, after.InterestAccumulated)}
		}
		if before.LastInteractionTime.Unix() == p.now {
			w.Stats.Probe("c18l.zero_time_checked")
			if !d.IsZero() {
				return &Violation{Property: "C18", OracleID: "c18l.borrow_interest", Signature: "accrual_over_zero_time:" + p.kind,
					Detail: fmt.Sprintf("%s accrued %s interest on borrow %d although its last interaction was in the same block second", p.kind, d, before.ID)}
			}
		} else if d.IsPositive() {
			w.Stats.Probe("c18l.interest_accrued")
		}
		return nil
	}
	switch p.kind {
	case "draw", "deposit_borrow":
		if b, ok := p.borrows[p.borrowID]; ok {
			if v := checkBorrow(b); v != nil {
				return v
			}
		}
	case "calc":
		w.Stats.Probe("c18l.calc_checked")
		ids := make([]uint64, 0, len(p.borrows))
		for id := range p.borrows {
			ids = append(ids, id)
		}
		sort.Slice(ids, func(i, j int) bool { return ids[i] < ids[j] })
		for _, id := range ids {
			if v := checkBorrow(p.borrows[id]); v != nil {
				return v
			}
		}
		lids := make([]uint64, 0, len(p.lends))
		for id := range p.lends {
			lids = append(lids, id)
		}
		sort.Slice(lids, func(i, j int) bool { return lids[i] < lids[j] })
		for _, id := range lids {
			before := p.lends[id]
			after, ok := lk.GetLend(ctx, id)
			if !ok {
				continue
			}
			br, ar := before.TotalRewards, after.TotalRewards
			if br.IsNil() {
				br = sdk.ZeroInt()
			}
			if ar.IsNil() {
				ar = sdk.ZeroInt()
			}
			d := ar.Sub(br)
			if d.IsNegative() {
				return &Violation{Property: "C18", OracleID: "c18l.lend_reward", Signature: "negative_reward",
					Detail: fmt.Sprintf("interest calculation changed the total rewards of lend %d by %s", id, d)}
			}
			if before.LastInteractionTime.Unix() == p.now {
				w.Stats.Probe("c18l.zero_time_checked")
				trk := sdk.ZeroDec()
				if t, ok := lk.GetLendRewardTracker(ctx, id); ok {
					trk = t.RewardsAccumulated
				}
				prev, had := p.lendTrk[id]
				if !d.IsZero() || (had && !trk.Equal(prev)) {
					return &Violation{Property: "C18", OracleID: "c18l.lend_reward", Signature: "reward_over_zero_time",
						Detail: fmt.Sprintf("interest calculation paid %s and moved the carried fraction from %s to %s on lend %d although its last interaction was in the same block second", d, prev, trk, id)}
				}
			} else if d.IsPositive() {
				w.Stats.Probe("c18l.reward_paid")
			}
		}
	}
	return nil
}

// ---------- C18 (lend part): rate model from observed utilisations ----------

type rateObs struct {
	u, b, s, l sdk.Dec
}

type c18LendRates struct {
	obs map[paKey][]rateObs // sorted by u, distinct u
}

func (o *c18LendRates) ID() string                  { return "c18.lend_rates" }
func (o *c18LendRates) Before(w *World, ev *Event) {}

func (o *c18LendRates) After(w *World, ev *Event, res Result) *Violation {
	if ev.Kind == "band_ack" || ev.Kind == "band_resp" || ev.Kind == "check" {
		return nil
	}
	if ev.Kind == "tx" && !res.Tx.OK() {
		return nil
	}
	if o.obs == nil {
		o.obs = map[paKey][]rateObs{}
	}
	ctx := w.Ctx()
	lk := w.App.LendKeeper
	band := sdk.NewDecWithPrec(4, 18)
	for _, pool := range lk.GetPools(ctx) {
		for _, d := range pool.AssetData {
			k := paKey{pool.PoolID, d.AssetID}
			u, err := lk.GetUtilisationRatioByPoolIDAndAssetID(ctx, pool.PoolID, d.AssetID)
			if err != nil {
				continue
			}
			b, err1 := lk.GetBorrowAPRByAssetID(ctx, pool.PoolID, d.AssetID, false)
			s, err2 := lk.GetBorrowAPRByAssetID(ctx, pool.PoolID, d.AssetID, true)
			l, err3 := lk.GetLendAPRByAssetIDAndPoolID(ctx, pool.PoolID, d.AssetID)
			if err1 != nil || err2 != nil || err3 != nil {
				continue
			}
			rs, ok := lk.GetAssetRatesParams(ctx, d.AssetID)
			if !ok {
				continue
			}
			cur := rateObs{u, b, s, l}
			if l.GT(b.Add(band)) {
				return &Violation{Property: "C18", OracleID: "c18l.rates.lend_le_borrow", Signature: "lend_rate>borrow_rate",
					Detail: fmt.Sprintf("pool %d asset %d at utilisation %s: lend rate %s exceeds borrow rate %s", pool.PoolID, d.AssetID, u, l, b)}
			}
			if u.IsZero() {
				w.Stats.Probe("c18l.rate_zero_util_checked")
				if !b.Equal(rs.Base) || !s.Equal(rs.StableBase) {
					return &Violation{Property: "C18", OracleID: "c18l.rates.base", Signature: "rate_at_zero_utilisation!=base",
						Detail: fmt.Sprintf("pool %d asset %d at zero utilisation: borrow rate %s (base %s), stable rate %s (stable base %s)", pool.PoolID, d.AssetID, b, rs.Base, s, rs.StableBase)}
				}
			}
			if u.GT(sdk.OneDec()) {
				w.Stats.Probe("c18l.utilisation_above_one")
			}
			if u.GTE(rs.UOptimal) {
				w.Stats.Probe("c18l.rate_at_or_above_kink_observed")
			}
			if diff := u.Sub(rs.UOptimal).Abs(); diff.LTE(sdk.NewDecWithPrec(1, 6)) {
				w.Stats.Probe("c18l.rate_near_kink_observed")
			}
			list := o.obs[k]
			i := sort.Search(len(list), func(i int) bool { return list[i].u.GTE(u) })
			cmp := func(lo, hi rateObs) *Violation {
				w.Stats.Probe("c18l.rate_pairs_compared")
				if lo.b.GT(hi.b.Add(band)) {
					return &Violation{Property: "C18", OracleID: "c18l.rates.monotone", Signature: "borrow_rate_decreases_with_utilisation",
						Detail: fmt.Sprintf("pool %d asset %d: borrow rate %s at utilisation %s but %s at the higher utilisation %s (UOptimal %s)", pool.PoolID, d.AssetID, lo.b, lo.u, hi.b, hi.u, rs.UOptimal)}
				}
				if lo.s.GT(hi.s.Add(band)) {
					return &Violation{Property: "C18", OracleID: "c18l.rates.monotone", Signature: "stable_rate_decreases_with_utilisation",
						Detail: fmt.Sprintf("pool %d asset %d: stable rate %s at utilisation %s but %s at the higher utilisation %s (UOptimal %s)", pool.PoolID, d.AssetID, lo.s, lo.u, hi.s, hi.u, rs.UOptimal)}
				}
				if lo.b.GT(hi.b) || lo.s.GT(hi.s) {
					w.Stats.Probe("c18l.rates.rounding_band")
				}
				return nil
			}
			if i < len(list) && list[i].u.Equal(u) {
				// same utilisation, same parameters: the observed rates must agree both ways
				if v := cmp(list[i], cur); v != nil {
					return v
				}
				if v := cmp(cur, list[i]); v != nil {
					return v
				}
				continue
			}
			if i > 0 {
				if v := cmp(list[i-1], cur); v != nil {
					return v
				}
			}
			if i < len(list) {
				if v := cmp(cur, list[i]); v != nil {
					return v
				}
			}
			list = append(list, rateObs{})
			copy(list[i+1:], list[i:])
			list[i] = cur
			o.obs[k] = list
			if len(list) >= 3 {
				w.Stats.Probe("c18l.rate_three_or_more_utilisations")
			}
		}
	}
	return nil
}

var _ = liqtypes.ModuleName

// debugLend prints, per block, what a dry run of the liquidation sweep would return (debugging aid only; no effect on the run).
func (t *lendLiqTracker) debugLend(w *World) {
	if !debugLiq {
		return
	}
	ctx := w.Ctx()
	func() {
		defer func() {
			if r := recover(); r != nil {
				fmt.Printf("h=%d dry Liquidate PANIC %v\n%s\n", w.Height(), r, debug.Stack())
			}
		}()
		cctx, _ := ctx.CacheContext()
		if err := w.App.NewliqKeeper.Liquidate(cctx); err != nil {
			fmt.Printf("h=%d dry Liquidate err=%v\n", w.Height(), err)
		}
	}()
	for _, l := range w.App.LendKeeper.GetAllLend(ctx) {
		fmt.Printf("  h=%d lend %d pool %d asset %d amountIn %s available %s rewards %s\n", w.Height(), l.ID, l.PoolID, l.AssetID, l.AmountIn, l.AvailableToBorrow, l.TotalRewards)
	}
	for _, b := range w.App.LendKeeper.GetAllBorrow(ctx) {
		v, d := w.borrowVerdict(b)
		if pair, ok := w.App.LendKeeper.GetLendPair(ctx, b.PairID); ok {
			if pool, ok := w.poolOfCollateral(b, pair); ok {
				if a, ok := w.lendAsset(pair.AssetIn); ok {
					d += fmt.Sprintf(" [pool %s holds %s%s]", pool.ModuleName, w.ModBal(pool.ModuleName, a.Denom), a.Denom)
				}
			}
		}
		trk, _ := w.App.LendKeeper.GetBorrowInterestTracker(ctx, b.ID)
		fmt.Printf("  h=%d borrow %d lend %d pair %d liq=%v stable=%v(rate %s) reserveShare=%s verdict=%s %s age=%d\n", w.Height(), b.ID, b.LendingID, b.PairID, b.IsLiquidated, b.IsStableBorrow, b.StableBorrowRate, trk.ReservePoolInterest, v, d, t.unsafeAge[b.ID])
	}
}
