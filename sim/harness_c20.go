package main

import (
	"os"
	"bytes"
	"encoding/hex"
	"fmt"
	"sort"
	"strings"
	"time"

	abci "github.com/cometbft/cometbft/abci/types"
	storetypes "github.com/cosmos/cosmos-sdk/store/types"
	sdk "github.com/cosmos/cosmos-sdk/types"
	banktypes "github.com/cosmos/cosmos-sdk/x/bank/types"

	assettypes "github.com/comdex-official/comdex/x/asset/types"
	auctiontypes "github.com/comdex-official/comdex/x/auction/types"
	auctionsV2types "github.com/comdex-official/comdex/x/auctionsV2/types"
	bandtypes "github.com/comdex-official/comdex/x/bandoracle/types"
	collectortypes "github.com/comdex-official/comdex/x/collector/types"
	esmtypes "github.com/comdex-official/comdex/x/esm/types"
	lendtypes "github.com/comdex-official/comdex/x/lend/types"
	liquidationtypes "github.com/comdex-official/comdex/x/liquidation/types"
	liquidationsV2types "github.com/comdex-official/comdex/x/liquidationsV2/types"
	liquiditytypes "github.com/comdex-official/comdex/x/liquidity/types"
	lockertypes "github.com/comdex-official/comdex/x/locker/types"
	markettypes "github.com/comdex-official/comdex/x/market/types"
	rewardstypes "github.com/comdex-official/comdex/x/rewards/types"
	tokenminttypes "github.com/comdex-official/comdex/x/tokenmint/types"
	vaulttypes "github.com/comdex-official/comdex/x/vault/types"
)

// defiStores: the module stores whose contents are "live positions, custody records, parameters, prices and id counters".
var defiStores = []string{
	assettypes.StoreKey, vaulttypes.StoreKey, lockertypes.StoreKey, collectortypes.StoreKey, liquidationtypes.StoreKey,
	liquidationsV2types.StoreKey, auctiontypes.StoreKey, auctionsV2types.StoreKey, markettypes.StoreKey, bandtypes.StoreKey,
	esmtypes.StoreKey, lendtypes.StoreKey, liquiditytypes.StoreKey, rewardstypes.StoreKey, tokenminttypes.StoreKey,
}

// c20Harness: at the export point the primary's committed state is exported to genesis and a fresh chain is initialised
// from it; afterwards both chains receive the same events and are compared.
type c20Harness struct {
	spec     *PropSpec
	cfg      Config
	w0, w1   *World
	exported bool
	pending  *Violation
}

func (h *c20Harness) Start(cfg Config) {
	h.cfg = cfg
	h.w0 = buildWorld(cfg)
}
func (h *c20Harness) World() *World { return h.w0 }

// informational: key prefixes (per store) that hold history/archive or derived indexes the statement does not list.
// Filled only after a diff on the unchanged tree has been read and classified by hand; see DESIGN.md C20.
var c20HistoryPrefixes = map[string][][]byte{
	// x/auctionsV2/types/keys.go: AuctionHistoricalKeyPrefix, BidHistoricalKeyPrefix, UserBidHistoricalKeyPrefix (closed auctions / past bids)
	auctionsV2types.StoreKey: {{0x07}, {0x12}, {0x13}},
	// x/liquidationsV2/types/keys.go: AppReserveFundsTxDataKeyPrefix (transaction log), LockedVaultDataKeyHistory
	liquidationsV2types.StoreKey: {{0x07}, {0x08}},
}

// benignDiff: representation-only differences that answer every query identically.
func benignDiff(d diffRec, w1 *World) bool {
	// liquidity InitGenesis writes LastPairId / LastPoolId = 0 for apps that have none; an absent key reads as 0 too
	if d.store == liquiditytypes.StoreKey && d.what == "only_present_after_re-import" && len(d.key) > 0 && (d.key[0] == 0xa0 || d.key[0] == 0xa1) {
		v := w1.Ctx().KVStore(storeKeys(w1)[d.store]).Get(d.key)
		return bytes.Equal(v, make([]byte, len(v))) // empty (proto zero value) or all-zero bytes
	}
	return false
}

func isHistoryKey(store string, key []byte) bool {
	for _, p := range c20HistoryPrefixes[store] {
		if bytes.HasPrefix(key, p) {
			return true
		}
	}
	return false
}

type kvPair struct{ k, v []byte }

var debugC20 = os.Getenv("VERIF_DEBUG_C20") != ""

func storeDump(w *World, name string, committed bool) []kvPair {
	keys := storeKeys(w)
	key, ok := keys[name]
	if !ok {
		return nil
	}
	if _, ok := key.(*storetypes.KVStoreKey); !ok {
		return nil
	}
	var st sdk.KVStore
	if committed {
		st = w.App.CommitMultiStore().GetCommitKVStore(key)
	} else {
		st = w.Ctx().KVStore(key)
	}
	it := st.Iterator(nil, nil)
	defer it.Close()
	var out []kvPair
	for ; it.Valid(); it.Next() {
		out = append(out, kvPair{append([]byte(nil), it.Key()...), append([]byte(nil), it.Value()...)})
	}
	return out
}

// diffRec is one raw difference between the original and the re-imported chain.
type diffRec struct {
	store string
	key   []byte
	what  string // missing_after_re-import | only_present_after_re-import | value_differs_after_re-import
	orig  []byte // value on the original chain (nil if absent)
}

func (d diffRec) sig() string {
	pfx := d.key
	if len(pfx) > 1 {
		pfx = pfx[:1]
	}
	return fmt.Sprintf("%s:prefix_%s:%s", d.store, hex.EncodeToString(pfx), d.what)
}

func (h *c20Harness) diffStores(origCommitted bool) []diffRec {
	var out []diffRec
	for _, name := range defiStores {
		a, b := storeDump(h.w0, name, origCommitted), storeDump(h.w1, name, false)
		i, j := 0, 0
		for i < len(a) || j < len(b) {
			var c int
			switch {
			case i >= len(a):
				c = 1
			case j >= len(b):
				c = -1
			default:
				c = bytes.Compare(a[i].k, b[j].k)
			}
			switch {
			case c < 0:
				out = append(out, diffRec{name, a[i].k, "missing_after_re-import", a[i].v})
				i++
			case c > 0:
				out = append(out, diffRec{name, b[j].k, "only_present_after_re-import", nil})
				j++
			default:
				if !bytes.Equal(a[i].v, b[j].v) {
					out = append(out, diffRec{name, a[i].k, "value_differs_after_re-import", a[i].v})
				}
				i++
				j++
			}
		}
	}
	return out
}

// compareState compares every DeFi module store (raw, ordered) and all bank balances + supply of the two chains.
// With repair=true (right after import only) a difference that is a listed open finding is recorded and the re-imported
// chain is patched with the original record, so that the continuation stays comparable; any other difference is a violation.
func (h *c20Harness) compareState(when string, origCommitted, repair bool) *Violation {
	for _, d := range h.diffStores(origCommitted) {
		if isHistoryKey(d.store, d.key) || benignDiff(d, h.w1) {
			h.w0.Stats.Probe("c20.informational_diff")
			if repair {
				h.patch(d)
			}
			continue
		}
		if debugC20 {
			fmt.Printf("C20DIFF %s key=%s\n", d.sig(), hex.EncodeToString(d.key))
			if repair {
				h.patch(d)
			}
			continue
		}
		v := &Violation{Property: "C20", OracleID: "c20.state", Signature: d.sig(), Continue: repair,
			Detail: fmt.Sprintf("%s: store %q key %s (%q) %s", when, d.store, hex.EncodeToString(d.key), printable(d.key), strings.ReplaceAll(d.what, "_", " "))}
		if repair {
			if filterKnown(v) == nil {
				h.patch(d)
				h.w0.Stats.Probe("c20.known_diff_patched")
				continue
			}
		}
		v.Continue = false
		return v
	}
	if origCommitted {
		h.w0.Stats.Probe("c20.state_compared")
		return nil // bank is compared once both chains are inside a block
	}
	// bank
	b0, b1 := bankDump(h.w0), bankDump(h.w1)
	for _, k := range sortedKeys(b0) {
		if b0[k] != b1[k] {
			return &Violation{Property: "C20", OracleID: "c20.bank", Signature: "balance_differs",
				Detail: fmt.Sprintf("%s: %s is %s on the original chain and %s after re-import", when, k, b0[k], b1[k])}
		}
	}
	for _, k := range sortedKeys(b1) {
		if _, ok := b0[k]; !ok {
			return &Violation{Property: "C20", OracleID: "c20.bank", Signature: "balance_differs",
				Detail: fmt.Sprintf("%s: %s exists only after re-import (%s)", when, k, b1[k])}
		}
	}
	h.w0.Stats.Probe("c20.state_compared")
	return nil
}

// patch makes the re-imported chain's record equal to the original's.
func (h *c20Harness) patch(d diffRec) {
	key := storeKeys(h.w1)[d.store]
	st := h.w1.WCtx().KVStore(key)
	if d.orig == nil {
		st.Delete(d.key)
	} else {
		st.Set(d.key, d.orig)
	}
}

func printable(b []byte) string {
	out := make([]byte, 0, len(b))
	for _, c := range b {
		if c >= 32 && c < 127 {
			out = append(out, c)
		} else {
			out = append(out, '.')
		}
	}
	return string(out)
}

func bankDump(w *World) map[string]string {
	ctx := w.Ctx()
	out := map[string]string{}
	w.App.BankKeeper.IterateAllBalances(ctx, func(addr sdk.AccAddress, c sdk.Coin) bool {
		if c.Denom == "ucmdx" || c.Denom == "stake" {
			return false // staking/distribution bookkeeping of the base denom is outside the DeFi modules
		}
		out["balance "+addr.String()+" "+c.Denom] = c.Amount.String()
		return false
	})
	w.App.BankKeeper.IterateTotalSupply(ctx, func(c sdk.Coin) bool {
		if c.Denom == "ucmdx" || c.Denom == "stake" {
			return false
		}
		out["supply "+c.Denom] = c.Amount.String()
		return false
	})
	_ = banktypes.ModuleName
	return out
}

func (h *c20Harness) doExport() *Violation {
	w0 := h.w0
	// finish and commit the current block on the original chain (export reads committed state)
	func() {
		defer func() {
			if r := recover(); r != nil {
				w0.Panicked = fmt.Sprintf("EndBlock height=%d: %v", w0.Hdr.Height, r)
			}
		}()
		w0.LastEndBlock = w0.App.EndBlock(abci.RequestEndBlock{Height: w0.Hdr.Height})
	}()
	if w0.Panicked != "" {
		return nil
	}
	w0.App.Commit()
	var exp struct {
		state  []byte
		height int64
		err    error
		pan    string
	}
	func() {
		defer func() {
			if r := recover(); r != nil {
				exp.pan = fmt.Sprint(r)
			}
		}()
		e, err := w0.App.ExportAppStateAndValidators(false, nil, nil)
		exp.state, exp.height, exp.err = e.AppState, e.Height, err
	}()
	if exp.pan != "" || exp.err != nil {
		return &Violation{Property: "C20", OracleID: "c20.export", Signature: "export_failed:" + panicSig(exp.pan),
			Detail: fmt.Sprintf("ExportAppStateAndValidators failed at height %d: err=%v panic=%s", w0.Hdr.Height, exp.err, exp.pan)}
	}
	w1 := &World{Cfg: w0.Cfg, Unsolicited: map[string]sdk.Coins{}, Stats: NewStats(), S: map[string]interface{}{}, X: map[string]interface{}{}}
	w1.DB = newSimDB()
	w1.Enc, w1.TxCfg, w1.ValKey, w1.ValHash, w1.Actors = w0.Enc, w0.TxCfg, w0.ValKey, w0.ValHash, w0.Actors
	w1.App = newApp(w1.DB, w0.Cfg.ChainID)
	w1.Cdp, w1.Dex, w1.Lend = w0.Cdp, w0.Dex, w0.Lend // set-up plans are read-only data
	if w0.Band != nil {
		b := *w0.Band
		w1.Band = &b
	}
	var initPanic string
	func() {
		defer func() {
			if r := recover(); r != nil {
				initPanic = fmt.Sprint(r)
			}
		}()
		w1.App.InitChain(abci.RequestInitChain{ChainId: w0.Cfg.ChainID, Validators: []abci.ValidatorUpdate{}, ConsensusParams: consensusParams(),
			AppStateBytes: exp.state, Time: w0.Hdr.Time, InitialHeight: exp.height})
	}()
	if initPanic != "" {
		return &Violation{Property: "C20", OracleID: "c20.import", Signature: "init_from_export_failed:" + panicSig(initPanic),
			Detail: fmt.Sprintf("InitChain from the exported genesis (height %d) panicked: %s", exp.height, initPanic)}
	}
	h.w1 = w1
	h.exported = true
	w0.Stats.Probe("c20.exported_and_imported")
	w1.Hdr = w1.mkHeader(exp.height, w0.Hdr.Time)
	if v := h.compareState("right after InitChain from the exported genesis", true, true); v != nil {
		return v
	}
	t := w0.Hdr.Time.Add(6 * time.Second)
	w0.beginBlock(exp.height, t)
	w1.Hdr = w1.mkHeader(exp.height, t)
	w1.Hdr.AppHash = nil
	func() {
		defer func() {
			if r := recover(); r != nil {
				w1.Panicked = fmt.Sprintf("BeginBlock height=%d: %v", exp.height, r)
			}
		}()
		w1.App.BeginBlock(abci.RequestBeginBlock{Header: w1.Hdr})
	}()
	w1.InBlock = true
	if w1.Panicked != "" {
		return &Violation{Property: "C20", OracleID: "c20.import", Signature: "first_block_after_import_panicked:" + panicSig(w1.Panicked), Detail: w1.Panicked}
	}
	return h.compareState("after the first BeginBlock following export/import", false, false)
}

func (h *c20Harness) Step(ev *Event, step int) (Result, *Violation) {
	if ev.Kind == "check" && ev.Tag == "c20.export" {
		if h.exported {
			return Result{}, nil
		}
		v := h.doExport()
		if v != nil {
			v.Step = step
		}
		return Result{}, v
	}
	res := h.w0.Apply(ev)
	if h.w0.Panicked != "" {
		return res, nil
	}
	if !h.exported {
		return res, nil
	}
	r1 := h.w1.Apply(cloneEvent(ev))
	if h.w1.Panicked != "" {
		return res, &Violation{Property: "C20", OracleID: "c20.continuation", Signature: "panic_only_after_reimport:" + panicSig(h.w1.Panicked), Detail: h.w1.Panicked, Step: step}
	}
	h.w0.Stats.OracleEval++
	switch ev.Kind {
	case "tx":
		if res.Tx.Code != r1.Tx.Code || normLog(res.Tx) != normLog(r1.Tx) || digestTx(TxResult{Events: res.Tx.Events}) != digestTx(TxResult{Events: r1.Tx.Events}) {
			return res, &Violation{Property: "C20", OracleID: "c20.continuation", Signature: "tx_result_differs:" + ev.Tag, Step: step,
				Detail: fmt.Sprintf("%s: original code=%d log=%q; after re-import code=%d log=%q", ev.Tag, res.Tx.Code, trunc(res.Tx.Log, 200), r1.Tx.Code, trunc(r1.Tx.Log, 200))}
		}
		h.w0.Stats.Probe("c20.continuation_tx_compared")
	case "block":
		if v := h.compareState(fmt.Sprintf("after block event at height %d", h.w0.Height()), false, false); v != nil {
			v.Step = step
			return res, v
		}
	default:
		if (res.Err != nil) != (r1.Err != nil) {
			return res, &Violation{Property: "C20", OracleID: "c20.continuation", Signature: "event_result_differs:" + ev.Kind, Step: step,
				Detail: fmt.Sprintf("%s %s: original err=%v, after re-import err=%v", ev.Kind, ev.Tag, res.Err, r1.Err)}
		}
	}
	return res, nil
}

func trunc(s string, n int) string {
	if len(s) > n {
		return s[:n]
	}
	return s
}

func (h *c20Harness) Finish() *Violation {
	if !h.exported {
		if v := h.doExport(); v != nil {
			return v
		}
	}
	if h.w0.Panicked != "" || h.w1 == nil {
		return nil
	}
	return h.compareState("at the end of the run", false, false)
}

func c20Gens(base func(w *World) []OpGen) func(w *World) []OpGen {
	return func(w *World) []OpGen {
		g := base(w)
		g = append(g, OpGen{"c20.export", 2, func(w *World, r *Rng) *Event {
			if w.X["c20_exported"] != nil || w.Height() < 70 {
				return nil
			}
			w.X["c20_exported"] = true
			return &Event{Kind: "check", Tag: "c20.export", Fault: "node.export-import"}
		}})
		return g
	}
}

var _ = sort.Strings

// normLog: the part of a tx log that is a result, not an execution artefact: first line only (panic logs carry stack
// traces with addresses), and nothing for out-of-gas (the log quotes gas counters; gas is not among the compared results).
func normLog(r TxResult) string {
	if r.Code == 11 {
		return "out of gas"
	}
	l := r.Log
	if i := strings.IndexByte(l, '\n'); i >= 0 {
		l = l[:i]
	}
	return l
}
