package main

import (
	"fmt"
	"math/big"

	sdk "github.com/cosmos/cosmos-sdk/types"

	"github.com/comdex-official/comdex/app/wasm/bindings"
	auctiontypes "github.com/comdex-official/comdex/x/auction/types"
	liqv1types "github.com/comdex-official/comdex/x/liquidation/types"
	vaulttypes "github.com/comdex-official/comdex/x/vault/types"
)

// First-generation liquidation and dutch auctions as far as the running application reaches them: the block hooks of
// x/liquidation and x/auction are not wired, but their message services are. On an app that governance has whitelisted
// for v1 liquidation and given v1 auction parameters, anybody's MsgLiquidateVault (v1) seizes an unsafe vault, starts a
// v1 dutch auction for it at once, and MsgPlaceDutchBid (v1) sells the collateral and settles the auction inside the
// closing bid. (Posted prices never move and auctions never restart, because that happens in the unwired hooks.)
// Knob "v1" (set by the C01 / C09 / C10 tweaks only) turns this configuration on.

func setupV1(w *World, r *Rng) {
	if w.Cfg.K("v1") == 0 {
		return
	}
	ctx := w.Ctx()
	p := w.Cdp
	if err := w.App.LiquidationKeeper.WasmWhitelistAppIDLiquidation(ctx, p.AppID); err != nil {
		panic(err)
	}
	err := w.App.AuctionKeeper.AddAuctionParams(ctx, &bindings.MsgAddAuctionParams{AppID: p.AppID,
		AuctionDurationSeconds: uint64([]int64{60, 600, 7200}[r.Intn(3)]), Buffer: decStr([]string{"1.05", "1.2", "1.5"}[r.Intn(3)]),
		Cusp: decStr([]string{"0.5", "0.7", "0.9"}[r.Intn(3)]), Step: 1, PriceFunctionType: 1, SurplusID: 1, DebtID: 2, DutchID: 3, BidDurationSeconds: 1800})
	if err != nil {
		panic(err)
	}
}

func v1Gens() []OpGen {
	on := func(w *World) bool { return w.Cdp != nil && w.Cfg.K("v1") != 0 }
	return []OpGen{
		{"liq.v1_msg", 6, func(w *World, r *Rng) *Event {
			if !on(w) {
				return nil
			}
			vs := w.App.VaultKeeper.GetVaults(w.Ctx())
			if len(vs) == 0 {
				return nil
			}
			a := w.Actors[r.Intn(len(w.Actors))]
			id := vs[r.Intn(len(vs))].Id
			// prefer a vault that looks unsafe (the message is a no-op on safe ones, which is tried too)
			for tries := 0; tries < 4; tries++ {
				v := vs[r.Intn(len(vs))]
				total := v.AmountOut.Add(v.InterestAccumulated).Add(v.ClosingFeeAccumulated)
				if verdict, _ := w.crVerdict(v.ExtendedPairVaultID, v.AmountIn, total); verdict == "unsafe" || verdict == "band" {
					id = v.Id
					break
				}
			}
			if r.Chance(1, 12) {
				id = uint64(r.Range(0, 40))
			}
			return w.TxEvent("liq.v1_msg", a, &liqv1types.MsgLiquidateVaultRequest{From: a.Bech(), AppId: w.Cdp.AppID, VaultId: id})
		}},
		// a vault opened exactly at the liquidation ratio, then the liquidate message on it in the same block (same prices):
		// "at or above the ratio" is the safe side
		{"liq.v1_exact", 3, func(w *World, r *Rng) *Event {
			if !on(w) {
				return nil
			}
			a := w.cdpUser(r)
			prod := w.pickProduct(r, false)
			if prod == nil || prod.Stable || prod.AppID != w.Cdp.AppID {
				return nil
			}
			if _, has := w.userVault(a, prod); has {
				return nil
			}
			ctx := w.Ctx()
			ep, ok := w.App.AssetKeeper.GetPairsVault(ctx, prod.ExtID)
			pin, ok1 := w.tokenPrice(prod.In, prod)
			pout, ok2 := w.productDebtPrice(prod)
			if !ok || !ok1 || !ok2 || pin == 0 || pout == 0 {
				return nil
			}
			// collateral value / debt value == MinCr  <=>  in*pin*decOut*1e18 == out*pout*decIn*minCr
			lhsUnit := new(big.Int).Mul(new(big.Int).SetUint64(pin), prod.Out.Decimals.BigInt())
			lhsUnit.Mul(lhsUnit, oneE18)
			rhsUnit := new(big.Int).Mul(new(big.Int).SetUint64(pout), prod.In.Decimals.BigInt())
			rhsUnit.Mul(rhsUnit, ep.MinCr.BigInt())
			g := new(big.Int).GCD(nil, nil, lhsUnit, rhsUnit)
			inStep := new(big.Int).Quo(rhsUnit, g)  // smallest collateral amount with an exact partner
			outStep := new(big.Int).Quo(lhsUnit, g) // ... and that partner
			if inStep.BitLen() > 90 || outStep.BitLen() > 60 {
				return nil
			}
			// smallest multiple that clears the debt floor, times a small random factor
			k := new(big.Int).Quo(ep.DebtFloor.BigInt(), outStep)
			k.Add(k, big.NewInt(r.Range(1, 20)))
			in := sdk.NewIntFromBigInt(new(big.Int).Mul(inStep, k))
			out := sdk.NewIntFromBigInt(new(big.Int).Mul(outStep, k))
			if in.GT(w.Bal(a.Addr, prod.In.Denom)) || !out.IsInt64() {
				return nil
			}
			first := w.TxEvent("vault.create", a, &vaulttypes.MsgCreateRequest{From: a.Bech(), AppId: prod.AppID, ExtendedPairVaultId: prod.ExtID, AmountIn: in, AmountOut: out})
			liq := w.Actors[r.Intn(len(w.Actors))]
			id := w.App.VaultKeeper.GetIDForVault(ctx) + 1
			second := w.TxEvent("liq.v1_msg", liq, &liqv1types.MsgLiquidateVaultRequest{From: liq.Bech(), AppId: prod.AppID, VaultId: id})
			first.then = []*Event{second}
			w.Stats.Probe("v1.gen.vault_exactly_at_ratio")
			return first
		}},
		{"bid.v1_dutch", 12, func(w *World, r *Rng) *Event {
			if !on(w) {
				return nil
			}
			as := w.App.AuctionKeeper.GetDutchAuctions(w.Ctx(), w.Cdp.AppID)
			if len(as) == 0 {
				return nil
			}
			au := as[r.Intn(len(as))]
			b := w.Actors[w.Cdp.Bidders[r.Intn(len(w.Cdp.Bidders))]]
			left := au.OutflowTokenCurrentAmount.Amount
			var amt sdk.Int
			switch r.Intn(6) {
			case 0:
				amt = sdk.NewInt(r.Range(1, 1000)) // tiny
			case 1:
				amt = left // everything
			case 2:
				amt = left.AddRaw(r.Range(1, 1000)) // more than there is: rejected
			case 3:
				amt = left.SubRaw(r.Range(1, 3)) // leaves dust
			default:
				amt = left.MulRaw(r.Range(1, 99)).QuoRaw(100)
			}
			return w.TxEvent("bid.v1_dutch", b, &auctiontypes.MsgPlaceDutchBidRequest{AuctionId: au.AuctionId, Bidder: b.Bech(),
				Amount: sdk.NewCoin(au.OutflowTokenCurrentAmount.Denom, posInt(amt)), AppId: au.AppId, AuctionMappingId: au.AuctionMappingId})
		}},
	}
}

// v1Locked: collateral / principal of vaults seized through the v1 message whose auction has not settled yet (the product
// totals keep them until the auction closes).
func v1Locked(w *World, lv *lockedView) {
	if w.Cdp == nil || w.Cfg.K("v1") == 0 {
		return
	}
	for _, l := range w.App.LiquidationKeeper.GetLockedVaults(w.Ctx()) {
		if l.IsAuctionComplete {
			continue
		}
		k := prodKey{l.AppId, l.ExtendedPairId}
		addTo(lv.coll, k, l.AmountIn)
		addTo(lv.principal, k, l.AmountOut)
		lv.any = true
	}
}

// ---------- oracle: v1 liquidate message (C09) and v1 dutch bids (C10) ----------

type v1Oracle struct {
	prop string
	seen map[uint64]bool
	pre  struct {
		kind               string
		vault              vaulttypes.Vault
		verdict, detail    string
		nAuctions          int
		vaultBal, aucBal   sdk.Int
		collDenom          string
		auction            auctiontypes.DutchAuction
		bidderColl         sdk.Int
		bidderDebt         sdk.Int
		ownerColl          sdk.Int
		supply             sdk.Int
		principal          sdk.Int
		sameOwner          bool
		collDec, debtDec   sdk.Int
	}
}

func (o *v1Oracle) ID() string { return "v1." + o.prop }

func (o *v1Oracle) Before(w *World, ev *Event) {
	o.pre.kind = ""
	if ev.Kind != "tx" || w.Cdp == nil || w.Cfg.K("v1") == 0 {
		return
	}
	msgs, err := w.DecodeMsgs(ev)
	if err != nil || len(msgs) != 1 {
		return
	}
	ctx := w.Ctx()
	switch m := msgs[0].(type) {
	case *liqv1types.MsgLiquidateVaultRequest:
		v, ok := w.App.VaultKeeper.GetVault(ctx, m.VaultId)
		if !ok {
			return
		}
		in, _, ok := w.extAssets(v.ExtendedPairVaultID)
		if !ok {
			return
		}
		o.pre.kind, o.pre.vault, o.pre.collDenom = "liquidate", v, in.Denom
		total := v.AmountOut.Add(v.InterestAccumulated).Add(v.ClosingFeeAccumulated)
		o.pre.verdict, o.pre.detail = w.crVerdict(v.ExtendedPairVaultID, v.AmountIn, total)
		if o.pre.verdict == "band" {
			// inside the rounding band of the 18-decimal representation the module's own ratio function decides which side
			// the vault is on ("at or above the ratio" is the safe side)
			if ep, ok := w.App.AssetKeeper.GetPairsVault(ctx, v.ExtendedPairVaultID); ok {
				if cr, err := w.App.VaultKeeper.CalculateCollateralizationRatio(ctx, v.ExtendedPairVaultID, v.AmountIn, total); err == nil && cr.GTE(ep.MinCr) {
					o.pre.verdict = "SAFE"
					o.pre.detail += fmt.Sprintf(" (module ratio %s)", cr)
					w.Stats.Probe("c09.v1_msg_on_vault_exactly_at_the_ratio")
				}
			}
		}
		o.pre.nAuctions = len(w.App.AuctionKeeper.GetDutchAuctions(ctx, v.AppId))
		o.pre.vaultBal = w.ModBal(vaulttypes.ModuleName, in.Denom)
		o.pre.aucBal = w.ModBal(auctiontypes.ModuleName, in.Denom)
	case *auctiontypes.MsgPlaceDutchBidRequest:
		au, err := w.App.AuctionKeeper.GetDutchAuction(ctx, m.AppId, m.AuctionMappingId, m.AuctionId)
		if err != nil {
			return
		}
		lv, ok := w.App.LiquidationKeeper.GetLockedVault(ctx, au.AppId, au.LockedVaultId)
		if !ok {
			return
		}
		ca, f1 := w.App.AssetKeeper.GetAsset(ctx, au.AssetOutId)
		da, f2 := w.App.AssetKeeper.GetAsset(ctx, au.AssetInId)
		if !f1 || !f2 {
			return
		}
		bidder := w.Actors[ev.Actor].Addr
		o.pre.kind, o.pre.auction = "bid", au
		o.pre.collDec, o.pre.debtDec = ca.Decimals, da.Decimals
		o.pre.bidderColl = w.Bal(bidder, au.OutflowTokenCurrentAmount.Denom)
		o.pre.bidderDebt = w.Bal(bidder, au.InflowTokenTargetAmount.Denom)
		o.pre.ownerColl = w.Bal(au.VaultOwner, au.OutflowTokenCurrentAmount.Denom)
		o.pre.sameOwner = au.VaultOwner.Equals(bidder)
		o.pre.supply = w.Supply(au.InflowTokenTargetAmount.Denom)
		o.pre.principal = lv.AmountOut
		o.pre.aucBal = w.ModBal(auctiontypes.ModuleName, au.InflowTokenTargetAmount.Denom)
	}
}

func (o *v1Oracle) After(w *World, ev *Event, res Result) *Violation {
	if w.Cdp == nil || w.Cfg.K("v1") == 0 {
		return nil
	}
	ctx := w.Ctx()
	if o.prop == "C10" {
		// custody of the v1 auction account: exactly the unsold collateral and the debt collected by the live auctions
		claims := sdk.Coins{}
		for _, a := range w.App.AuctionKeeper.GetDutchAuctions(ctx, w.Cdp.AppID) {
			if a.OutflowTokenCurrentAmount.IsPositive() {
				claims = claims.Add(a.OutflowTokenCurrentAmount)
			}
			if a.InflowTokenCurrentAmount.IsPositive() {
				claims = claims.Add(a.InflowTokenCurrentAmount)
			}
			// a v1 auction is created inside a transaction: its start price is the collateral's oracle price in force in this
			// block times the configured premium (buffer), its end price the start price times the configured cusp
			if o.seen == nil {
				o.seen = map[uint64]bool{}
			}
			if !o.seen[a.AuctionId] {
				o.seen[a.AuctionId] = true
				if ap, ok := w.App.AuctionKeeper.GetAuctionParams(ctx, a.AppId); ok && a.StartTime.Equal(w.Hdr.Time) {
					if tw, ok := w.App.MarketKeeper.GetTwa(ctx, a.AssetOutId); ok && tw.IsPriceActive {
						want := ap.Buffer.Mul(sdk.NewDec(int64(tw.Twa)))
						w.Stats.Probe("c10.v1_start_price_checked")
						if !a.OutflowTokenInitialPrice.Equal(want) || !a.OutflowTokenEndPrice.Equal(want.Mul(ap.Cusp)) {
							return &Violation{Property: "C10", OracleID: "c10.v1_start_price", Signature: "start_or_end_price!=oracle_x_premium",
								Detail: fmt.Sprintf("v1 dutch auction %d: collateral oracle price %d, premium %s, cusp %s: start price %s (expected %s), end price %s (expected %s)", a.AuctionId, tw.Twa, ap.Buffer, ap.Cusp, a.OutflowTokenInitialPrice, want, a.OutflowTokenEndPrice, want.Mul(ap.Cusp))}
						}
					}
				}
			}
			if a.OutflowTokenCurrentPrice.GT(a.OutflowTokenInitialPrice) || a.OutflowTokenCurrentPrice.LT(a.OutflowTokenEndPrice) {
				return &Violation{Property: "C10", OracleID: "c10.v1_price_range", Signature: "price_outside_start_end",
					Detail: fmt.Sprintf("v1 dutch auction %d posted price %s outside [%s, %s]", a.AuctionId, a.OutflowTokenCurrentPrice, a.OutflowTokenEndPrice, a.OutflowTokenInitialPrice)}
			}
		}
		mod := w.ModAddr(auctiontypes.ModuleName)
		for _, as := range w.Cdp.Assets {
			if as.Denom == w.Cdp.Debt.Denom {
				continue // the second-generation surplus lots also pass through this account (listed C13 findings); checked per bid below
			}
			have := w.Bal(mod, as.Denom).Sub(w.UnsolicitedAmt(mod, as.Denom))
			want := claims.AmountOf(as.Denom)
			if !have.Equal(want) {
				return &Violation{Property: "C10", OracleID: "c10.v1_custody", Signature: "custody!=claims:" + cmpSigInt(have, want) + ctxTag(ev),
					Detail: fmt.Sprintf("v1 auction account holds %s %s (net of unsolicited) after %s, live v1 dutch auctions account for %s (unsold collateral + debt collected)", have, as.Denom, ev.Tag, want)}
			}
		}
		w.Stats.Probe("c10.v1_custody_checked")
	}
	if o.pre.kind == "" || !res.Tx.OK() {
		return nil
	}
	switch o.pre.kind {
	case "liquidate":
		if o.prop != "C09" {
			return nil
		}
		v := o.pre.vault
		_, still := w.App.VaultKeeper.GetVault(ctx, v.Id)
		w.Stats.Probe("c09.v1_liquidate_msg_delivered")
		if still {
			return nil
		}
		w.Stats.Probe("c09.v1_seizure_checked")
		if o.pre.verdict == "SAFE" {
			return &Violation{Property: "C09", OracleID: "c09.safety", Signature: "safe_vault_seized:v1_msg",
				Detail: fmt.Sprintf("vault %d (product %d) was seized by the v1 liquidate message although it was on the safe side: %s", v.Id, v.ExtendedPairVaultID, o.pre.detail)}
		}
		n := len(w.App.AuctionKeeper.GetDutchAuctions(ctx, v.AppId))
		if n != o.pre.nAuctions+1 {
			return &Violation{Property: "C09", OracleID: "c09.one_auction", Signature: fmt.Sprintf("auctions=%d:v1_msg", n-o.pre.nAuctions),
				Detail: fmt.Sprintf("seizure of vault %d by the v1 liquidate message opened %d auctions", v.Id, n-o.pre.nAuctions)}
		}
		moved := w.ModBal(auctiontypes.ModuleName, o.pre.collDenom).Sub(o.pre.aucBal)
		left := o.pre.vaultBal.Sub(w.ModBal(vaulttypes.ModuleName, o.pre.collDenom))
		if !moved.Equal(v.AmountIn) || !left.Equal(v.AmountIn) {
			return &Violation{Property: "C09", OracleID: "c09.seizure_amount", Signature: "collateral_mismatch:v1_msg",
				Detail: fmt.Sprintf("vault %d recorded collateral %s; seizure by the v1 message moved %s out of vault custody and %s into auction custody", v.Id, v.AmountIn, left, moved)}
		}
	case "bid":
		if o.prop != "C10" {
			return nil
		}
		au := o.pre.auction
		bidder := w.Actors[ev.Actor].Addr
		paid := o.pre.bidderDebt.Sub(w.Bal(bidder, au.InflowTokenTargetAmount.Denom))
		got := w.Bal(bidder, au.OutflowTokenCurrentAmount.Denom).Sub(o.pre.bidderColl)
		w.Stats.Probe("c10.v1_bid_checked")
		_, err := w.App.AuctionKeeper.GetDutchAuction(ctx, au.AppId, au.AuctionMappingId, au.AuctionId)
		closed := err != nil
		if o.pre.sameOwner {
			return nil // refund and purchase cannot be separated
		}
		remaining := au.InflowTokenTargetAmount.Amount.Sub(au.InflowTokenCurrentAmount.Amount)
		if paid.GT(remaining) {
			return &Violation{Property: "C10", OracleID: "c10.bid_total", Signature: "paid_more_than_remaining_debt:v1",
				Detail: fmt.Sprintf("v1 auction %d: bidder paid %s, remaining target was %s", au.AuctionId, paid, remaining)}
		}
		if got.GT(au.OutflowTokenCurrentAmount.Amount) {
			return &Violation{Property: "C10", OracleID: "c10.bid_total", Signature: "received_more_than_remaining_collateral:v1",
				Detail: fmt.Sprintf("v1 auction %d: bidder received %s, remaining collateral was %s", au.AuctionId, got, au.OutflowTokenCurrentAmount.Amount)}
		}
		// posted price: value(got) at the posted collateral price <= value(paid + 1 unit) at the debt price, + one collateral unit
		lhs := new(big.Rat).SetFrac(new(big.Int).Mul(got.BigInt(), au.OutflowTokenCurrentPrice.BigInt()), o.pre.collDec.BigInt())
		rhs := new(big.Rat).SetFrac(new(big.Int).Mul(paid.AddRaw(1).BigInt(), au.InflowTokenCurrentPrice.BigInt()), o.pre.debtDec.BigInt())
		rhs.Add(rhs, new(big.Rat).SetFrac(au.OutflowTokenCurrentPrice.BigInt(), o.pre.collDec.BigInt()))
		if lhs.Cmp(rhs) > 0 {
			return &Violation{Property: "C10", OracleID: "c10.bid_price", Signature: "more_collateral_than_posted_price:v1",
				Detail: fmt.Sprintf("v1 auction %d: bidder paid %s%s at debt price %s and received %s%s at posted price %s", au.AuctionId, paid, au.InflowTokenTargetAmount.Denom, au.InflowTokenCurrentPrice, got, au.OutflowTokenCurrentAmount.Denom, au.OutflowTokenCurrentPrice)}
		}
		// debt coin in the auction account: a bid adds what the bidder paid; a closing bid takes out everything collected
		dDebt := w.ModBal(auctiontypes.ModuleName, au.InflowTokenTargetAmount.Denom).Sub(o.pre.aucBal)
		wantD := paid
		if closed {
			wantD = au.InflowTokenCurrentAmount.Amount.Neg()
		}
		if !dDebt.Equal(wantD) {
			return &Violation{Property: "C10", OracleID: "c10.v1_custody", Signature: "debt_custody_delta:" + cmpSigInt(dDebt, wantD),
				Detail: fmt.Sprintf("v1 auction %d (closed=%v): bidder paid %s, the auction account's %s balance changed by %s, expected %s", au.AuctionId, closed, paid, au.InflowTokenTargetAmount.Denom, dDebt, wantD)}
		}
		if closed {
			w.Stats.Probe("c10.v1_auction_closed_checked")
			burned := o.pre.supply.Sub(w.Supply(au.InflowTokenTargetAmount.Denom))
			if !burned.Equal(o.pre.principal) {
				return &Violation{Property: "C10", OracleID: "c10.close_proceeds", Signature: "burned!=principal:v1",
					Detail: fmt.Sprintf("v1 auction %d closed: the seized vault's principal was %s, %s of the debt asset was burned", au.AuctionId, o.pre.principal, burned)}
			}
			ownerGot := w.Bal(au.VaultOwner, au.OutflowTokenCurrentAmount.Denom).Sub(o.pre.ownerColl)
			if !au.OutflowTokenCurrentAmount.Amount.Equal(got.Add(ownerGot)) {
				return &Violation{Property: "C10", OracleID: "c10.close_collateral", Signature: "collateral_not_fully_distributed:v1",
					Detail: fmt.Sprintf("v1 auction %d closed: remaining collateral %s, bidder got %s, owner got %s", au.AuctionId, au.OutflowTokenCurrentAmount.Amount, got, ownerGot)}
			}
		}
	}
	return nil
}
