package main

import (
	"os"
	"strings"
)

func init() {
	scenarios["cdp"] = &Scenario{
		Name: "cdp", NActors: cdpActors, Draw: drawCdpConfig,
		Setup: func(w *World) { setupCdp(w); w.warmOracle() },
		Gens: func(w *World) []OpGen {
			cfgTriggerBoost = w.Cfg.K("trigger_boost")
			return append(append(append(append(cdpGens(), liqGens()...), auxGens()...), extRewardGens()...), v1Gens()...)
		},
		PBlock: 220,
	}

	cdpGensAll := func(w *World) []OpGen {
		return append(append(append(append(cdpGens(), liqGens()...), auxGens()...), extRewardGens()...), v1Gens()...)
	}
	scenarios["cdp+export"] = &Scenario{
		Name: "cdp+export", NActors: cdpActors, Draw: drawCdpConfig,
		Setup: func(w *World) { setupCdp(w); w.warmOracle() },
		Gens:  c20Gens(cdpGensAll), PBlock: 220,
	}
	scenarios["cdp+inject"] = &Scenario{
		Name: "cdp+inject", NActors: cdpActors, Draw: drawCdpConfig,
		Setup: func(w *World) { setupCdp(w); w.warmOracle() },
		Gens:  c15Gens(func(w *World) []OpGen { return append(cdpGensAll(w), c15EnvGens()...) }), PBlock: 220,
	}
	props["C15"] = &PropSpec{
		ID: "C15", Level: "fault_enumeration", Scenarios: []string{"cdp+inject"}, PanicIsViolation: true,
		NewHarness: func(spec *PropSpec) Harness {
			n := 250
			if os.Getenv("VERIF_TIER") == "thorough" {
				n = 600
			}
			return &c15Harness{stdHarness: stdHarness{spec: spec}, maxInject: n}
		},
		Oracles:    func(w *World) []Oracle { return nil },
		TweakCfg: func(r *Rng, cfg *Config) {
			cfg.Knobs["env_faults"] = int64(r.Intn(2))
			if strings.HasPrefix(cfg.Scenario, "cdp") && r.Bool() {
				cfg.Knobs["sister_app"] = 1 // sweep steps that fail on their own in every block
			}
			if strings.HasPrefix(cfg.Scenario, "dex") {
				// incentive hook under stress: gauges (some with a deposit beyond 64 bits), epochs that do trigger
				cfg.Knobs["whale"] = int64(r.Intn(2))
				cfg.Knobs["gauge_w"] = 3
				cfg.Knobs["n_gauges"] = 2
				if cfg.Knobs["jump_w"] < 2 {
					cfg.Knobs["jump_w"] = 4
				}
			}
		},
		Quick:      Budget{Runs: 96, MaxEvents: 120},
		Thorough:   Budget{Runs: 700, MaxEvents: 300},
		Essential:  []string{"c15.block_enumerated"},
		BatchProbe: []string{"c15.block_enumerated", "c15.units_observed"},
		Rule: "states come from seeded simulated runs; at PRNG-chosen points the whole app's EndBlocker+BeginBlocker are executed on a discarded branch with hook H1 observing every ApplyFuncIfNoError unit, once fault-free and then once per (unit, store access) pair with that access failing (all pairs up to a cap, evenly spaced subset beyond it, flagged); per injection: nothing escapes the hook, the failed unit reports failure, every store equals its state at unit entry, and all units of the same loop are still entered; every block of every run is also executed under recover (an escaped panic is a violation); one case = one run; distinct = distinct digest of the event stream; non-trivial = at least one block was enumerated",
		Assume: []string{"a store fault is modelled as a panic raised at a gas-meter call of that access (every KV access goes through the context gas meter)", "work done outside ApplyFuncIfNoError units is only covered by the no-escaped-panic check"},
	}
	props["C20"] = &PropSpec{
		ID: "C20", Level: "exploration", Scenarios: []string{"cdp+export"},
		NewHarness: func(spec *PropSpec) Harness { return &c20Harness{spec: spec} },
		TweakCfg: func(r *Rng, cfg *Config) {
			if strings.HasPrefix(cfg.Scenario, "cdp") && r.Bool() {
				cfg.Knobs["ext_rewards_w"] = 1 // external reward programmes (records, epochs, id counters) are part of the state
			}
		},
		Quick:      Budget{Runs: 64, MaxEvents: 160},
		Thorough:   Budget{Runs: 1200, MaxEvents: 400},
		Essential:  []string{"c20.exported_and_imported", "c20.state_compared"},
		BatchProbe: []string{"c20.exported_and_imported", "c20.state_compared", "c20.continuation_tx_compared"},
		Rule: "one case = one seeded run: a workload builds state, at a PRNG-chosen block the committed state is exported with ExportAppStateAndValidators and a fresh chain is initialised from it; the same continuation events are then applied to both chains; compared: raw ordered contents of every DeFi module store and all non-staking bank balances/supply right after import, after every continuation block and at the end, plus code/log/events of every continuation tx; distinct = distinct digest of the event stream; non-trivial = export+import happened and state was compared",
		Assume: []string{"key prefixes classified by hand as history/archive are reported as informational only (none so far)", "staking/distribution bookkeeping of the base denom is outside the compared set"},
	}
	props["C01"] = &PropSpec{
		ID: "C01", Level: "exploration", Scenarios: []string{"cdp"},
		Oracles:   func(w *World) []Oracle { return []Oracle{&c01Oracle{}} },
		Quick:     Budget{Runs: 160, MaxEvents: 140},
		Thorough:  Budget{Runs: 2400, MaxEvents: 400},
		TweakCfg: func(r *Rng, cfg *Config) {
			if cfg.Scenario == "cdp+ctl" && r.Chance(2, 3) {
				cfg.Knobs["esm"] = 1 // emergency shutdown can be executed in this run
			}
			if cfg.Scenario == "cdp" && r.Chance(1, 4) {
				cfg.Knobs["v1"] = 1
			}
			if r.Chance(1, 3) {
				cfg.Knobs["sister_app"] = 1
			}
		},
		Essential: []string{"c01.checked_with_open_vaults"},
		BatchProbe: []string{"c01.checked_with_open_vaults", "c01.checked_with_locked_vaults", "c01.checked_after_emergency_redemption"},
		Rule: "one case = one seeded simulated run (swarm configuration + PRNG-scheduled users, block boundaries, time gaps, oracle packets, faults) of the whole app; a third of the runs add the emergency-control actors (breaker flips, ESM deposits and execution, cool-off passed through clock gaps); distinct = distinct digest of (event, outcome) sequence; non-trivial = the custody/totals oracle was evaluated at least once with open vaults",
		Assume: []string{"CometBFT, IBC core and wasm VM are stubbed by the simulator", "governance set-up is applied through keeper entry points"},
	}
	props["C02"] = &PropSpec{
		ID: "C02", Level: "exploration", Scenarios: []string{"cdp"},
		Oracles:   func(w *World) []Oracle { return []Oracle{&c02Oracle{}} },
		Quick:     Budget{Runs: 160, MaxEvents: 140},
		Thorough:  Budget{Runs: 2400, MaxEvents: 400},
		TweakCfg: func(r *Rng, cfg *Config) {
			if cfg.Scenario == "cdp+ctl" && r.Chance(2, 3) {
				cfg.Knobs["esm"] = 1 // emergency shutdown can be executed in this run
			}
			if cfg.Scenario == "cdp" && r.Chance(1, 4) {
				cfg.Knobs["v1"] = 1 // first-generation liquidate message and dutch bids (their close burns the principal)
				if r.Bool() {
					cfg.Knobs["liq_v2"] = 0
				}
			}
		},
		Essential: []string{"c02.mint_checked", "c02.retire_checked"},
		BatchProbe: []string{"c02.mint_with_fee", "c02.mint_zero_fee", "c02.retire_checked", "c02.fee_paid_from_supply"},
		Rule: "one case = one seeded simulated run; distinct = distinct digest of (event, outcome) sequence; non-trivial = at least one successful mint and one successful repayment/close were checked against supply, user and collector balance deltas",
		Assume: []string{"CometBFT, IBC core and wasm VM are stubbed by the simulator"},
	}
	props["C09"] = &PropSpec{
		ID: "C09", Level: "exploration", Scenarios: []string{"cdp"},
		Oracles:   func(w *World) []Oracle { return []Oracle{&c09Oracle{}, &v1Oracle{prop: "C09"}} },
		Quick:     Budget{Runs: 160, MaxEvents: 160},
		Thorough:  Budget{Runs: 2400, MaxEvents: 400},
		Essential: []string{"c09.seizure_checked"},
		BatchProbe: []string{"c09.seizure_checked", "c09.seizure_clearly_unsafe", "liq.vault_seized_by_keeper_msg", "c09.liveness_clock_running"},
		TweakCfg: func(r *Rng, cfg *Config) {
			if cfg.Knobs["liq_v2"] == 0 && r.Chance(3, 4) {
				cfg.Knobs["liq_v2"] = 1
			}
			cfg.Knobs["path_mode"] = []int64{pathCrash, pathSaw, pathWalk, pathCrash}[r.Intn(4)]
			if r.Bool() {
				cfg.Knobs["sister_app"] = 1 // vaults of an app that is not whitelisted for liquidation sit in the same sweep list
			}
			if r.Chance(1, 3) {
				cfg.Knobs["v1"] = 1 // the app is also whitelisted for the first-generation liquidate message
				if r.Bool() {
					cfg.Knobs["liq_v2"] = 0
				}
			}
			if cfg.Knobs["vol"] < 8 {
				cfg.Knobs["vol"] = 8 + r.Range(0, 17)
			}
		},
		Rule: "one case = one seeded simulated run with falling/oscillating oracle paths, sweeps of batch size 1..200 and keeper messages on safe and unsafe ids; distinct = distinct digest of (event, outcome) sequence; non-trivial = at least one seizure was checked for safety (exact ratio vs MinCr at the price in force) and for opening exactly one auction",
		Assume: []string{"liveness is bounded-step: a vault counts only while liquidation+dutch are enabled, both prices active and no breaker/ESM, continuously", "a seizure inside the 18-decimal rounding band is counted, not reported"},
	}
	props["C10"] = &PropSpec{
		ID: "C10", Level: "exploration", Scenarios: []string{"cdp", "cdp", "lend"},
		Oracles: func(w *World) []Oracle {
			if w.Cdp == nil {
				return []Oracle{newC10(), &c10LendCustody{}}
			}
			// "no unaccounted remainder stays in auction custody": the custody ledger of the auctionsV2 account
			return []Oracle{newC10(), &relabel{inner: newC11(), only: "c11.custody", prop: "C10", id: "c10.custody"}, &v1Oracle{prop: "C10"}}
		},
		Quick:     Budget{Runs: 160, MaxEvents: 180},
		Thorough:  Budget{Runs: 2400, MaxEvents: 400},
		Essential: []string{"c10.bid_checked"},
		BatchProbe: []string{"c10.bid_checked", "c10.auction_closed_checked", "c10.price_decayed", "c10.auction_restarted", "c10.owner_refunded", "c10.reserve_topped_up_auction", "c10.reserve_topped_up_after_partial_bids"},
		TweakCfg: func(r *Rng, cfg *Config) {
			if cfg.Knobs["liq_v2"] == 0 {
				cfg.Knobs["liq_v2"] = 1
			}
			cfg.Knobs["dutch_on"] = 1
			cfg.Knobs["debt_oracle"] = 1
			if strings.HasPrefix(cfg.Scenario, "cdp") && r.Chance(1, 3) {
				cfg.Knobs["v1"] = 1 // first-generation liquidate message and dutch bids are usable too
				if r.Bool() {
					cfg.Knobs["liq_v2"] = 0 // ... and the second-generation sweep does not get there first
				}
			}
			cfg.Knobs["path_mode"] = []int64{pathCrash, pathSaw, pathCrash}[r.Intn(3)]
			if cfg.Knobs["vol"] < 8 {
				cfg.Knobs["vol"] = 8 + r.Range(0, 17)
			}
		},
		Rule: "one case = one seeded simulated run in which vaults are seized and several bidders place tiny/partial/exact/over-sized dutch bids at PRNG-chosen times relative to price updates and restarts; distinct = distinct digest of (event, outcome) sequence; non-trivial = at least one successful bid was checked against the posted price from balance deltas",
		Assume: []string{"V2 dutch auctions initiated by vault and by borrow liquidations (lend scenario: per-bid price/bonus and totals; the close-time distribution equation is checked for vault auctions)", "externally initiated auctions and the v1 generation (whose block hooks are not wired in the shipped app) are not exercised"},
	}
	props["C17"] = &PropSpec{
		ID: "C17", Level: "exploration", Scenarios: []string{"oracle"}, PanicIsViolation: true,
		Oracles:   func(w *World) []Oracle { return []Oracle{&c17Oracle{}} },
		Quick:     Budget{Runs: 160, MaxEvents: 140},
		Thorough:  Budget{Runs: 1200, MaxEvents: 400},
		Essential: []string{"c17.active_mean_checked"},
		BatchProbe: []string{"c17.active_mean_checked", "c17.active_mean_checked_n_ge_2", "c17.zero_sample", "c17.feed_outage_ended", "c17.huge_sample", "c17.inactive_observed"},
		Rule: "one case = one seeded run of the real bandoracle+market pipeline for a drawn window size N in {1,2,3,5,10} and accepted gap, fed through the real IBC callbacks with PRNG-chosen packet fates (drop ack/response/both, reorder, duplicate, stale id, short list, wrong channel, late old response) and sample values (random, zero, repeated, max uint64), assets added mid-run; compared after every block with a reference model (set of admissible windows; mean in big integers); distinct = distinct digest of (event, outcome) sequence; non-trivial = at least one active price was compared with the model mean",
		Assume: []string{"the sample sequence is what bandoracle publishes to market (last acknowledged request id + stored result + validation flag)", "after an outage whose length is within 20 blocks of the configured gap both keeping and clearing the window are accepted"},
	}
	props["C16"] = &PropSpec{
		ID: "C16", Level: "exploration", Scenarios: []string{"cdp"},
		NewHarness: func(spec *PropSpec) Harness { return &c16Harness{spec: spec} },
		TweakCfg: func(r *Rng, cfg *Config) {
			if strings.HasPrefix(cfg.Scenario, "cdp") && r.Chance(1, 3) {
				cfg.Knobs["sister_app"] = 1
			}
			if cfg.Scenario == "cdp+ctl" {
				cfg.Knobs["esm"] = 1 // the emergency shutdown is executed (its records carry times)
				cfg.Knobs["esm_fast"] = 1
			}
			if cfg.Scenario == "dex" {
				cfg.Knobs["order_boost"] = 2
				cfg.Knobs["burst_boost"] = int64(r.Intn(4))
				cfg.Knobs["bare_pairs"] = []int64{0, 1, 2, 3}[r.Intn(4)]
				cfg.Knobs["farm_boost"] = int64(r.Intn(3))
			}
		},
		Quick:      Budget{Runs: 48, MaxEvents: 120},
		Thorough:   Budget{Runs: 500, MaxEvents: 300},
		Essential:  []string{"c16.block_hashes_compared", "c16.fresh_process_replica_compared"},
		BatchProbe: []string{"c16.block_hashes_compared", "c16.fresh_process_replica_compared"},
		Rule: "one case = one generated block/tx stream (seeded swarm workload) executed on 5 replicas: primary, second in-process instance, crash/restart instance (App dropped after BeginBlock / after a tx / before Commit / after Commit at plan-chosen points, reopened from the durable DB, interrupted block re-executed), and two fresh OS processes at GOMAXPROCS 1 and 16; compared: per-tx code/gas/log/events, per-block EndBlock events and app hash (Merkle root over every module store incl. bank); distinct = distinct digest of the stream; non-trivial = block hashes compared and at least one fresh-process replica compared",
		Assume: []string{"identical app hash implies identical module stores (collision resistance of the IAVL/rootmulti hash); on mismatch the first differing store is named", "crash during the multistore Commit itself is not simulated (SDK/IAVL territory)"},
	}
	props["C03"] = &PropSpec{
		ID: "C03", Level: "exploration", Scenarios: []string{"cdp"},
		Oracles:   func(w *World) []Oracle { return []Oracle{&c03Oracle{}} },
		Quick:     Budget{Runs: 160, MaxEvents: 140},
		Thorough:  Budget{Runs: 2400, MaxEvents: 400},
		Essential: []string{"c03.cr_checked"},
		BatchProbe: []string{"c03.cr_checked", "c03.boundary.cr_near", "c03.boundary.floor_exact"},
		Rule: "one case = one seeded simulated run with boundary-directed amounts (ratio == MinCr +-2 units, floor +-1, ceiling +-1); distinct = distinct digest of (event, outcome) sequence; non-trivial = the exact-ratio oracle evaluated at least one successful create/draw/withdraw",
		Assume: []string{"ratio compared in exact rationals; a result within the 18-decimal rounding band of the on-chain representation is counted, not reported"},
	}
}

// derive registers base+suffix with wrapped generators (export point, injection points, ...).
func derive(base, suffix string, wrap func(func(w *World) []OpGen) func(w *World) []OpGen) string {
	b := scenarios[base]
	if b == nil {
		panic("derive: unknown scenario " + base)
	}
	c := *b
	c.Name = base + suffix
	c.Gens = wrap(b.Gens)
	scenarios[c.Name] = &c
	return c.Name
}

// registered after every scenario file's init() has run (Go runs init functions of one package in file-name order;
// props.go sorts before scen_*.go, so derived scenarios are created lazily from main()).
func registerDerived() {
	props["C12"] = &PropSpec{
		ID: "C12", Level: "exploration",
		Oracles:    func(w *World) []Oracle { return []Oracle{&c12Oracle{}} },
		Quick:      Budget{Runs: 320, MaxEvents: 160},
		Thorough:   Budget{Runs: 2400, MaxEvents: 400},
		Essential:  []string{"c12.non_owner_attempt"},
		TweakCfg: func(r *Rng, cfg *Config) {
			// the cdp app gets a governance token in most runs, so that the minting / burning contract messages are acceptable
			if strings.HasPrefix(cfg.Scenario, "cdp") && r.Chance(3, 4) {
				cfg.Knobs["esm"] = 1
			}
		},
		BatchProbe: []string{"c12.non_owner_attempt", "c12.killswitch_attempt", "c12.killswitch_by_admin_accepted", "c12.contract_message_from_stranger", "c12.contract_message_from_designated_accepted"},
		Rule: "one case = one seeded simulated run (cdp, lend or dex workload) in which, interleaved with the normal traffic, non-owner actors send every message type that names someone else's position (vault withdraw/draw/close/deposit-and-draw, locker withdraw/close, lend withdraw/close and borrowing against a foreign lend position, borrow draw/close/repay-withdraw/deposit-borrow, order cancel), random actors send MsgKillSwitch, and all 20 custom contract message variants are dispatched through the real CustomMessenger from designated contracts of this and of the other network and from strangers, under chain ids comdex-1, comdex-test3 and sim-1; oracle: non-owner / non-admin / stranger attempts must fail and leave every store except the signer's sequence byte-identical; distinct = distinct digest of the event stream; non-trivial = at least one non-owner attempt was evaluated",
		Assume: []string{"a transaction signed by one key but carrying another address in its From field is rejected by signature verification (real ante handler runs); attempts are therefore made under the attacker's own address naming the victim's position id", "deposit and repay by a non-owner are not attempted: they do not move, reduce or close the position", "farm positions and limit bids are keyed by the signer's address and cannot name another party", "on chain ids other than comdex-1 / comdex-test3 only the kill switch admin list is checked (the contract guards are network specific by their own text)"},
	}
	props["C14"] = &PropSpec{
		ID: "C14", Level: "exploration",
		Oracles:    func(w *World) []Oracle { return []Oracle{&c14Oracle{}} },
		Quick:      Budget{Runs: 160, MaxEvents: 180},
		Thorough:   Budget{Runs: 2400, MaxEvents: 400},
		Essential:  []string{"c14.message_under_breaker"},
		BatchProbe: []string{"c14.message_under_breaker", "c14.block_under_breaker", "c14.message_after_esm", "c14.mint_attempt_after_esm", "c14.mint_attempt_after_esm_without_kill_switch_record", "c14.message_with_inactive_price"},
		TweakCfg: func(r *Rng, cfg *Config) {
			if cfg.Scenario == "cdp+ctl" && r.Chance(2, 3) {
				cfg.Knobs["esm"] = 1
			}
			if cfg.Knobs["pkt_fault"] == 0 && r.Bool() {
				cfg.Knobs["pkt_fault"] = 100
			}
		},
		Rule: "one case = one seeded simulated run (cdp or lend workload) in which the configured admin flips per-app circuit breakers, users deposit to and execute the emergency shutdown (cool-off 30 s..1 day, passed or not through clock gaps), and packet fates deactivate prices; every vault / stable-mint / locker / lend message is classified from the statement (open-enlarge-draw, vault repay/close/withdraw, mints debt, collateral withdrawal) and its outcome compared with the control state read just before it; block hooks: a locked vault or surplus/debt lot created in a BeginBlock for an app whose breaker is on is a violation; cells the statement leaves open (locker withdraw/close, lend withdraw/close/repay, vault repay/close after shutdown, keeper liquidate messages) are never checked; distinct = distinct digest of the event stream; non-trivial = at least one classified message was delivered while its app's breaker was on",
		Assume: []string{"a refused message leaves no state change because the real BaseApp transaction wrapper reverts failed messages (checked byte-for-byte under C12)", "required price = collateral price, plus debt price when the product uses the oracle for the debt asset"},
	}
	for _, base := range []string{"cdp", "lend"} {
		if scenarios[base] != nil {
			ctl := derive(base, "+ctl", c14Gens)
			props["C14"].Scenarios = append(props["C14"].Scenarios, ctl)
			if base == "cdp" {
				// custody, totals and supply backing also under breaker / emergency shutdown (redemption set-up, re-opened vaults)
				props["C01"].Scenarios = append(props["C01"].Scenarios, "cdp", ctl)
				props["C02"].Scenarios = append(props["C02"].Scenarios, "cdp", ctl)
			}
			// block hooks, replicas and export/import also run under breaker / emergency shutdown
			props["C16"].Scenarios = append(props["C16"].Scenarios, ctl)
			if base == "cdp" {
				props["C16"].Scenarios = append(props["C16"].Scenarios, ctl)
			}
			props["C15"].Scenarios = append(props["C15"].Scenarios, derive(ctl, "+inject", func(b func(w *World) []OpGen) func(w *World) []OpGen {
				return c15Gens(func(w *World) []OpGen { return append(b(w), c15EnvGens()...) })
			}))
			props["C20"].Scenarios = append(props["C20"].Scenarios, derive(ctl, "+export", c20Gens))
		}
	}
	if scenarios["oracle"] != nil {
		// the (unwrapped) oracle pipeline hooks under hostile packet fates: only the no-escaped-panic and replica checks apply
		props["C15"].Scenarios = append(props["C15"].Scenarios, "oracle")
		props["C16"].Scenarios = append(props["C16"].Scenarios, "oracle")
	}
	for _, base := range []string{"cdp", "dex", "lend"} {
		if scenarios[base] == nil || scenarios[base].Gens == nil {
			continue
		}
		props["C12"].Scenarios = append(props["C12"].Scenarios, derive(base, "+attack", c12Gens))
		if base == "cdp" {
			continue
		}
		e := derive(base, "+export", c20Gens)
		i := derive(base, "+inject", func(b func(w *World) []OpGen) func(w *World) []OpGen {
			return c15Gens(func(w *World) []OpGen { return append(b(w), c15EnvGens()...) })
		})
		props["C20"].Scenarios = append(props["C20"].Scenarios, e)
		props["C15"].Scenarios = append(props["C15"].Scenarios, i)
		props["C16"].Scenarios = append(props["C16"].Scenarios, base)
		if base == "dex" {
			// the order-dependent aggregations the property names live in matching and reward distribution: weight 3
			props["C16"].Scenarios = append(props["C16"].Scenarios, base, base)
		}
	}
}

// mergeLendParts folds the helper specs C09L / C18L (lend scenario) into the real properties C09 / C18.
func mergeLendParts() {
	if l, ok := props["C18L"]; ok {
		props["C18"] = &PropSpec{
			ID: "C18", Level: "exploration", Scenarios: []string{"cdp", "lend"},
			NewHarness: func(spec *PropSpec) Harness { return &c18Switch{spec: spec} },
			Quick:      Budget{Runs: 200, MaxEvents: 160},
			Thorough:   Budget{Runs: 2400, MaxEvents: 400},
			EssentialAny: [][]string{{"c18.vault_calc_checked"}, {"c18.locker_calc_checked"}, l.Essential},
			BatchProbe: append([]string{"c18.vault_calc_checked", "c18.vault_interest_accrued", "c18.zero_time_checked", "c18.twin_vault_compared", "c18.locker_calc_checked"}, l.BatchProbe...),
			TweakCfg: func(r *Rng, cfg *Config) {
				if cfg.Scenario == "lend" {
					l.TweakCfg(r, cfg)
					return
				}
				cfg.Knobs["vault_interest"] = 1
				cfg.Knobs["oog"] = 0
				cfg.Knobs["trigger_boost"] = int64(r.Intn(3))
				cfg.Knobs["gap_profile"] = int64(r.Intn(4)) // seconds (sub-unit accruals) up to years
			},
			Rule: "cdp workload: twin worlds from the same genesis receive the same seeded event stream except that pure interest-trigger transactions (vault interest calc, locker reward calc) reach world A only (schedule fault: extra triggers at PRNG-chosen times, gaps from seconds to years); at every block boundary each vault with equal principal in both worlds is accrued to now on discarded branches and compared (A must not owe more than B beyond one unit + float64 resolution per step); in world A every trigger is checked for accrual >= 0 and == 0 over zero elapsed time. lend workload: " + l.Rule + "; distinct = distinct digest of the event stream; non-trivial = an accrual trigger was checked",
			Assume: append([]string{"monotonicity in principal and rate is not checked by twins (only time: split vs single accrual); the pure numeric quantifier over all (amount, rate, time) is not claimed (DESIGN §9)", "twin comparison stops for a run as soon as a transaction succeeds in one world and fails in the other"}, l.Assume...),
		}
	}
	if l, ok := props["C09L"]; ok {
		c := props["C09"]
		cdpOr, cdpTw := c.Oracles, c.TweakCfg
		c.Scenarios = []string{"cdp", "lend"}
		c.Oracles = func(w *World) []Oracle {
			if w.Cfg.Scenario == "lend" {
				return l.Oracles(w)
			}
			return cdpOr(w)
		}
		c.TweakCfg = func(r *Rng, cfg *Config) {
			if cfg.Scenario == "lend" {
				l.TweakCfg(r, cfg)
			} else {
				cdpTw(r, cfg)
			}
		}
		c.EssentialAny = [][]string{c.Essential, l.Essential}
		c.Essential = nil
		c.BatchProbe = append(append([]string{}, c.BatchProbe...), l.BatchProbe...)
		c.Quick = Budget{Runs: 200, MaxEvents: 160}
		c.Rule += "; the same for borrow positions in the lend scenario (e-mode and bridged thresholds, seizure = exact bank deltas pool -> auction custody, one auction, bounded liveness over the borrow list)"
		c.Assume = append(c.Assume, l.Assume...)
	}
}

// relabel runs another property's oracle and reports only the violations of one of its sub-oracles under this property.
type relabel struct {
	inner Oracle
	only  string
	prop  string
	id    string
}

func (r *relabel) ID() string                 { return r.id }
func (r *relabel) Before(w *World, ev *Event) { r.inner.Before(w, ev) }
func (r *relabel) After(w *World, ev *Event, res Result) *Violation {
	v := r.inner.After(w, ev, res)
	if v == nil || v.OracleID != r.only {
		return nil
	}
	v.Property, v.OracleID = r.prop, r.id
	return v
}
