package main

func init() {
	scenarios["cdp"] = &Scenario{
		Name: "cdp", NActors: cdpActors, Draw: drawCdpConfig,
		Setup: func(w *World) { setupCdp(w); w.warmOracle() },
		Gens:  func(w *World) []OpGen { return cdpGens() },
		PBlock: 220,
	}

	props["C01"] = &PropSpec{
		ID: "C01", Level: "exploration", Scenarios: []string{"cdp"},
		Oracles:   func(w *World) []Oracle { return []Oracle{&c01Oracle{}} },
		Quick:     Budget{Runs: 160, MaxEvents: 140},
		Thorough:  Budget{Runs: 6000, MaxEvents: 400},
		Essential: []string{"c01.checked_with_open_vaults"},
		BatchProbe: []string{"c01.checked_with_open_vaults"},
		Rule: "one case = one seeded simulated run (swarm configuration + PRNG-scheduled users, block boundaries, time gaps, oracle packets, faults) of the whole app; distinct = distinct digest of (event, outcome) sequence; non-trivial = the custody/totals oracle was evaluated at least once with open vaults",
		Assume: []string{"CometBFT, IBC core and wasm VM are stubbed by the simulator", "governance set-up is applied through keeper entry points"},
	}
	props["C02"] = &PropSpec{
		ID: "C02", Level: "exploration", Scenarios: []string{"cdp"},
		Oracles:   func(w *World) []Oracle { return []Oracle{&c02Oracle{}} },
		Quick:     Budget{Runs: 160, MaxEvents: 140},
		Thorough:  Budget{Runs: 6000, MaxEvents: 400},
		Essential: []string{"c02.mint_checked", "c02.retire_checked"},
		BatchProbe: []string{"c02.mint_with_fee", "c02.mint_zero_fee", "c02.retire_checked", "c02.fee_paid_from_supply"},
		Rule: "one case = one seeded simulated run; distinct = distinct digest of (event, outcome) sequence; non-trivial = at least one successful mint and one successful repayment/close were checked against supply, user and collector balance deltas",
		Assume: []string{"CometBFT, IBC core and wasm VM are stubbed by the simulator"},
	}
	props["C03"] = &PropSpec{
		ID: "C03", Level: "exploration", Scenarios: []string{"cdp"},
		Oracles:   func(w *World) []Oracle { return []Oracle{&c03Oracle{}} },
		Quick:     Budget{Runs: 160, MaxEvents: 140},
		Thorough:  Budget{Runs: 6000, MaxEvents: 400},
		Essential: []string{"c03.cr_checked"},
		BatchProbe: []string{"c03.cr_checked", "c03.boundary.cr_near", "c03.boundary.floor_exact"},
		Rule: "one case = one seeded simulated run with boundary-directed amounts (ratio == MinCr +-2 units, floor +-1, ceiling +-1); distinct = distinct digest of (event, outcome) sequence; non-trivial = the exact-ratio oracle evaluated at least one successful create/draw/withdraw",
		Assume: []string{"ratio compared in exact rationals; a result within the 18-decimal rounding band of the on-chain representation is counted, not reported"},
	}
}
