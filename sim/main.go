package main

import (
	chain "github.com/comdex-official/comdex/app"
	"encoding/json"
	"fmt"
	"os"
	"os/exec"
	"path/filepath"
	"runtime"
	"sort"
	"strconv"
	"strings"
	"sync"
	"time"
)

func verifDir() string {
	if d := os.Getenv("VERIF_DIR"); d != "" {
		return d
	}
	return "/verif"
}

func verifSeed() uint64 {
	if s := os.Getenv("VERIF_SEED"); s != "" {
		if v, err := strconv.ParseUint(s, 10, 64); err == nil {
			return v
		}
		if v, err := strconv.ParseInt(s, 10, 64); err == nil {
			return uint64(v)
		}
	}
	return 20261002
}

func usage() {
	fmt.Fprintln(os.Stderr, "usage: comdexsim check <Cxx> <quick|thorough> | worker ... | replay <Cxx> <file> | selftest <Cxx> [n] | one <Cxx> <runIndex> [maxEvents]")
	os.Exit(2)
}

func main() {
	defer cleanupHome()
	chain.SetAccountAddressPrefixes() // bech32 prefix "comdex", as on the real networks (the governance contract guards compare address strings)
	registerDerived()
	mergeLendParts()
	if len(os.Args) < 2 {
		usage()
	}
	switch os.Args[1] {
	case "check":
		if len(os.Args) < 4 {
			usage()
		}
		os.Exit(cmdCheck(os.Args[2], os.Args[3]))
	case "worker":
		cmdWorker(os.Args[2:])
	case "replay":
		if len(os.Args) < 4 {
			usage()
		}
		code := cmdReplay(os.Args[2], os.Args[3])
		cleanupHome()
		os.Exit(code)
	case "selftest":
		n := 12
		if len(os.Args) > 3 {
			n, _ = strconv.Atoi(os.Args[3])
		}
		code := cmdSelftest(os.Args[2], n)
		cleanupHome()
		os.Exit(code)
	case "one":
		cmdOne(os.Args[2:])
	case "replica":
		code := cmdReplica(os.Args[2])
		cleanupHome()
		os.Exit(code)
	default:
		usage()
	}
}

func getSpec(id string) *PropSpec {
	s, ok := props[id]
	if !ok {
		fmt.Fprintf(os.Stderr, "unknown property %s\n", id)
		os.Exit(2)
	}
	return s
}

func cmdOne(args []string) {
	spec := getSpec(args[0])
	idx, _ := strconv.Atoi(args[1])
	max := spec.Quick.MaxEvents
	if len(args) > 2 {
		max, _ = strconv.Atoi(args[2])
	}
	runSeed := MixSeed(verifSeed(), spec.ID, uint64(idx))
	t0 := time.Now()
	knownList = loadKnown(filepath.Join(verifDir(), "known_findings.json"))
	out := RunOne(spec, runSeed, max, true)
	for k, v := range knownHits {
		fmt.Printf("KNOWN-FINDING hit %dx: %s\n", v, k)
	}
	fmt.Printf("run %d seed=%d scenario=%s events=%d hash=%s nontrivial=%v wall=%.2fs\n", idx, runSeed, out.Cfg.Scenario, out.NEvents, out.TraceHash, out.Nontrivial, time.Since(t0).Seconds())
	st := out.stats
	fmt.Printf("blocks=%d txs=%d ok=%d simsec=%d\n", st.Blocks, st.Txs, st.TxsOK, st.SimSeconds)
	for _, k := range sortedKeys(st.Ops) {
		fmt.Printf("  op %-28s ok=%d fail=%d\n", k, st.Ops[k][0], st.Ops[k][1])
	}
	for _, k := range sortedProbeKeys(st.Probes) {
		fmt.Printf("  probe %-40s %d\n", k, st.Probes[k])
	}
	for _, k := range sortedProbeKeys(st.Faults) {
		fmt.Printf("  fault %-40s %d\n", k, st.Faults[k])
	}
	for k := range st.States {
		if strings.HasPrefix(k, "unit:") {
			fmt.Println("  state", k)
		}
	}
	if out.Panicked != "" {
		fmt.Println("PANICKED:", out.Panicked)
	}
	if out.Violation != nil {
		fmt.Printf("VIOLATION %s [%s] %s\n  %s\n", out.Violation.Property, out.Violation.OracleID, out.Violation.Signature, out.Violation.Detail)
		if os.Getenv("VERIF_DUMP") != "" {
			bz, _ := json.MarshalIndent(out.Events, "", " ")
			fmt.Println(string(bz))
		}
	}
	if os.Getenv("VERIF_FAILLOG") != "" {
		// print failed tx logs by tag (debugging generators)
	}
}

func cmdWorker(args []string) {
	// worker <Cxx> <tier> <seed> <from> <to> <outfile>
	spec := getSpec(args[0])
	tier := args[1]
	seed, _ := strconv.ParseUint(args[2], 10, 64)
	from, _ := strconv.Atoi(args[3])
	to, _ := strconv.Atoi(args[4])
	wr := runWorker(spec, tier, seed, from, to, filepath.Join(verifDir(), "replays"), filepath.Join(verifDir(), "known_findings.json"))
	bz, _ := json.Marshal(wr)
	if err := os.WriteFile(args[5], bz, 0o644); err != nil {
		fmt.Fprintln(os.Stderr, err)
		cleanupHome()
		os.Exit(2)
	}
}

func spawnWorkers(spec *PropSpec, tier string, seed uint64, runs, nworkers int, env []string) ([]*WorkerResult, error) {
	self, _ := os.Executable()
	tmp, err := os.MkdirTemp("", "comdexsim-out-")
	if err != nil {
		return nil, err
	}
	defer os.RemoveAll(tmp)
	if nworkers > runs {
		nworkers = runs
	}
	// split into more chunks than workers for load balance, deterministic chunking
	chunk := (runs + nworkers*4 - 1) / (nworkers * 4)
	if chunk < 1 {
		chunk = 1
	}
	type job struct{ from, to, idx int }
	var jobs []job
	for f, i := 0, 0; f < runs; f, i = f+chunk, i+1 {
		t := f + chunk
		if t > runs {
			t = runs
		}
		jobs = append(jobs, job{f, t, i})
	}
	results := make([]*WorkerResult, len(jobs))
	errs := make([]error, len(jobs))
	ch := make(chan job)
	var wg sync.WaitGroup
	for k := 0; k < nworkers; k++ {
		wg.Add(1)
		go func() {
			defer wg.Done()
			for j := range ch {
				outf := filepath.Join(tmp, fmt.Sprintf("w%d.json", j.idx))
				cmd := exec.Command(self, "worker", spec.ID, tier, strconv.FormatUint(seed, 10), strconv.Itoa(j.from), strconv.Itoa(j.to), outf)
				cmd.Env = append(os.Environ(), env...)
				cmd.Stderr = os.Stderr
				cmd.Stdout = os.Stderr
				if err := cmd.Run(); err != nil {
					errs[j.idx] = fmt.Errorf("worker %d-%d: %v", j.from, j.to, err)
					continue
				}
				bz, err := os.ReadFile(outf)
				if err != nil {
					errs[j.idx] = err
					continue
				}
				var wr WorkerResult
				if err := json.Unmarshal(bz, &wr); err != nil {
					errs[j.idx] = err
					continue
				}
				results[j.idx] = &wr
			}
		}()
	}
	for _, j := range jobs {
		ch <- j
	}
	close(ch)
	wg.Wait()
	for _, e := range errs {
		if e != nil {
			return nil, e
		}
	}
	return results, nil
}

func cmdCheck(id, tier string) int {
	spec := getSpec(id)
	if tier != "quick" && tier != "thorough" {
		usage()
	}
	start := time.Now()
	seed := verifSeed()
	budget := spec.Quick
	if tier == "thorough" {
		budget = spec.Thorough
	}
	if v := os.Getenv("VERIF_RUNS"); v != "" {
		budget.Runs, _ = strconv.Atoi(v)
	}
	fmt.Printf("comdexsim %s %s VERIF_SEED=%d runs=%d max_events=%d\n", id, tier, seed, budget.Runs, budget.MaxEvents)
	nw := runtime.NumCPU()
	if v := os.Getenv("VERIF_WORKERS"); v != "" {
		nw, _ = strconv.Atoi(v)
	}
	if tier == "thorough" {
		if code := cmdSelftest(id, 6); code != 0 {
			fmt.Println("determinism self-test failed; nothing else is believed")
			return 2
		}
	}
	results, err := spawnWorkers(spec, tier, seed, budget.Runs, nw, []string{"VERIF_TIER=" + tier})
	if err != nil {
		fmt.Fprintf(os.Stderr, "worker failure: %v\n", err)
		return 2
	}
	agg := NewStats()
	hashes := map[string]struct{}{}
	var vioLines []string
	known := map[string]int{}
	var samples []json.RawMessage
	runs, panicked := 0, 0
	var evTotal int64
	for _, wr := range results {
		runs += wr.Runs
		panicked += wr.Panicked
		evTotal += wr.EventsTotal
		agg.Merge(StatsFromJSON(wr.Stats))
		for _, h := range wr.Hashes {
			hashes[h] = struct{}{}
		}
		vioLines = append(vioLines, wr.VioLines...)
		for k, v := range wr.Known {
			known[k] += v
		}
		if len(samples) < 3 {
			samples = append(samples, wr.Samples...)
		}
	}
	wall := time.Since(start).Seconds()
	vacuous := []string{}
	for _, p := range spec.BatchProbe {
		if agg.Probes[p] == 0 {
			vacuous = append(vacuous, p)
		}
	}
	if len(samples) == 0 {
		samples = append(samples, json.RawMessage(`{"note":"no sample recorded"}`))
	}
	if len(samples) > 3 {
		samples = samples[:3]
	}
	cov := map[string]interface{}{
		"evaluations":              runs,
		"distinct_nontrivial":      len(hashes),
		"rule":                     spec.Rule,
		"samples":                  samples,
		"runs_per_hour":            int(float64(runs) / wall * 3600),
		"first_run_seed":           MixSeed(seed, spec.ID, 0),
		"last_run_seed":            MixSeed(seed, spec.ID, uint64(budget.Runs-1)),
		"events_executed":          evTotal,
		"blocks":                   agg.Blocks,
		"txs":                      agg.Txs,
		"txs_ok":                   agg.TxsOK,
		"txs_failed":               agg.Txs - agg.TxsOK,
		"sim_time_seconds":         agg.SimSeconds,
		"faults_fired":             agg.Faults,
		"probes":                   agg.Probes,
		"ops":                      agg.Ops,
		"oracle_evaluations":       agg.OracleEval,
		"distinct_abstract_states": len(agg.States),
		"distinct_transitions":     len(agg.Trans),
		"runs_with_escaped_panic":  panicked,
		"known_findings_matched":   known,
		"workers":                  nw,
		"components": map[string]interface{}{
			"real": []string{"all comdex modules (keepers, msg servers, begin/end blockers, genesis)", "cosmos-sdk BaseApp, ante handler, auth, bank, staking, params", "rootmulti+IAVL store on MemDB", "bandoracle IBC callbacks", "app/wasm CustomMessenger"},
			"stub": []string{"CometBFT consensus/mempool/p2p (simulator is the proposer)", "IBC core + relayer + BandChain (simulator delivers packets)", "CosmWasm VM and governance contracts", "governance voting (admin actor calls the keeper entry points)"},
		},
	}
	if len(vacuous) > 0 {
		cov["vacuous_probes"] = vacuous
	}
	ev := map[string]interface{}{
		"property_id": id,
		"tier":        tier,
		"seed":        int64(seed & 0x7fffffffffffffff),
		"level":       spec.Level,
		"coverage":    cov,
		"assumptions": spec.Assume,
		"wall_s":      wall,
		"violations":  len(vioLines),
	}
	bz, _ := json.MarshalIndent(ev, "", " ")
	_ = os.MkdirAll(filepath.Join(verifDir(), "evidence"), 0o755)
	if err := os.WriteFile(filepath.Join(verifDir(), "evidence", id+".json"), bz, 0o644); err != nil {
		fmt.Fprintln(os.Stderr, err)
		return 2
	}
	fmt.Printf("runs=%d distinct_nontrivial=%d blocks=%d txs=%d (ok %d) sim_time=%ds wall=%.1fs panicked_runs=%d\n", runs, len(hashes), agg.Blocks, agg.Txs, agg.TxsOK, agg.SimSeconds, wall, panicked)
	var fk []string
	for k, v := range agg.Faults {
		fk = append(fk, fmt.Sprintf("%s=%d", k, v))
	}
	sort.Strings(fk)
	fmt.Println("faults fired:", strings.Join(fk, " "))
	// one line per listed open finding of this property (hit or not in this batch); the list is read-only at run time
	for _, kf := range loadKnown(filepath.Join(verifDir(), "known_findings.json")) {
		if kf.Status != "open" || (kf.Property != id && !(id == "C09L" && kf.Property == "C09") && !(id == "C18L" && kf.Property == "C18")) {
			continue
		}
		fmt.Printf("KNOWN-FINDING: property=%s %s (hit %d times in this batch)\n", kf.Property, kf.What, known[kf.Property+" "+kf.What])
	}
	if len(vioLines) > 0 {
		for _, l := range vioLines {
			fmt.Println(l)
		}
		return 1
	}
	if len(vacuous) > 0 {
		fmt.Printf("batch is vacuous: probes never hit: %v\n", vacuous)
		return 2
	}
	if len(hashes) < 2 {
		fmt.Println("batch is vacuous: fewer than 2 distinct non-trivial runs")
		return 2
	}
	fmt.Printf("OK property=%s held on everything explored\n", id)
	return 0
}

func cmdReplay(id, path string) int {
	spec := getSpec(id)
	bz, err := os.ReadFile(path)
	if err != nil {
		fmt.Fprintln(os.Stderr, err)
		return 2
	}
	var rf ReplayFile
	if err := json.Unmarshal(bz, &rf); err != nil {
		fmt.Fprintln(os.Stderr, err)
		return 2
	}
	knownList = loadKnown(filepath.Join(verifDir(), "known_findings.json"))
	v, _ := ReplayRun(spec, rf.Config, rf.Events)
	if v == nil {
		fmt.Printf("replay of %s: no violation\n", path)
		return 0
	}
	fmt.Printf("replay: %s [%s] %s\n  %s\n  step %d of %d\n", v.Property, v.OracleID, v.Signature, v.Detail, v.Step, len(rf.Events))
	if rf.Violation != nil && v.Key() != rf.Violation.Key() {
		fmt.Printf("note: recorded violation was %s\n", rf.Violation.Key())
	}
	fmt.Printf("VIOLATION property=%s replay=%s\n", id, path)
	return 1
}

// cmdSelftest: same run indexes in fresh processes at GOMAXPROCS 1 and 16 must give identical trace hashes.
func cmdSelftest(id string, n int) int {
	spec := getSpec(id)
	seed := verifSeed() ^ 0x5e1f7e57
	var ref []string
	for round, gmp := range []string{"1", "16", "4"} {
		res, err := spawnWorkers(spec, "quick", seed, n, 4, []string{"GOMAXPROCS=" + gmp, "VERIF_SELFTEST=1"})
		if err != nil {
			fmt.Fprintf(os.Stderr, "selftest worker failure: %v\n", err)
			return 2
		}
		var all []string
		for _, wr := range res {
			all = append(all, wr.AllHashes...)
		}
		sort.Strings(all)
		if round == 0 {
			ref = all
			continue
		}
		if strings.Join(all, ",") != strings.Join(ref, ",") {
			fmt.Printf("DETERMINISM FAILURE property=%s GOMAXPROCS=%s\n ref=%v\n got=%v\n", id, gmp, ref, all)
			return 2
		}
	}
	fmt.Printf("selftest %s: %d runs x 3 processes (GOMAXPROCS 1/16/4) identical\n", id, n)
	return 0
}
