package main

import (
	"fmt"

	sdk "github.com/cosmos/cosmos-sdk/types"

	"github.com/comdex-official/comdex/app/wasm/bindings"
	esmtypes "github.com/comdex-official/comdex/x/esm/types"
	lendtypes "github.com/comdex-official/comdex/x/lend/types"
	lockertypes "github.com/comdex-official/comdex/x/locker/types"
	vaulttypes "github.com/comdex-official/comdex/x/vault/types"
)

// ---------- emergency-control actors ----------

func (w *World) adminActor() *Actor { return w.Actors[len(w.Actors)-1] }

func c14Gens(base func(w *World) []OpGen) func(w *World) []OpGen {
	return func(w *World) []OpGen {
		g := base(w)
		g = append(g,
			OpGen{"ctl.breaker", 3, func(w *World, r *Rng) *Event {
				if _, has := w.Cfg.Knobs["breaker_w"]; has && w.Cfg.K("breaker_w") == 0 {
					return nil
				}
				if w.Cfg.K("breaker_w") == 1 && !r.Chance(1, 3) {
					return nil
				}
				apps, _ := w.App.AssetKeeper.GetApps(w.Ctx())
				if len(apps) == 0 {
					return nil
				}
				app := apps[r.Intn(len(apps))].Id
				ks, _ := w.App.EsmKeeper.GetKillSwitchData(w.Ctx(), app)
				on := !ks.BreakerEnable
				if r.Chance(1, 5) {
					on = ks.BreakerEnable
				}
				a := w.adminActor()
				ev := w.TxEvent("ctl.breaker", a, &esmtypes.MsgKillRequest{From: a.Bech(), KillSwitchParams: &esmtypes.KillSwitchParams{AppId: app, BreakerEnable: on}})
				if on {
					ev.Fault = "ctl.breaker_on"
				}
				return ev
			}},
			OpGen{"ctl.esm_deposit", 4, func(w *World, r *Rng) *Event {
				if w.Cdp == nil || w.Cfg.K("esm") == 0 {
					return nil
				}
				a := w.Actors[r.Intn(len(w.Actors))]
				bal := w.Bal(a.Addr, w.Cdp.Gov.Denom)
				if !bal.IsPositive() {
					return nil
				}
				amt := sdk.NewInt(r.Range(100000, 3000000))
				if w.Cfg.K("esm_fast") != 0 {
					amt = sdk.NewInt(5000000) // reaches any configured target at once
				}
				if amt.GT(bal) {
					amt = bal
				}
				return w.TxEvent("ctl.esm_deposit", a, &esmtypes.MsgDepositESM{AppId: w.Cdp.AppID, Depositor: a.Bech(), Amount: sdk.NewCoin(w.Cdp.Gov.Denom, amt)})
			}},
			OpGen{"ctl.esm_execute", 2, func(w *World, r *Rng) *Event {
				if w.Cdp == nil || w.Cfg.K("esm") == 0 {
					return nil
				}
				a := w.Actors[r.Intn(len(w.Actors))]
				ev := w.TxEvent("ctl.esm_execute", a, &esmtypes.MsgExecuteESM{AppId: w.Cdp.AppID, Depositor: a.Bech()})
				ev.Fault = "ctl.esm_execute"
				return ev
			}},
			// once the shutdown has been executed, keep asking for new debt with requests that would be perfectly acceptable
			// otherwise (an amount well inside the vault's room), so that only the shutdown guard can refuse them
			OpGen{"ctl.post_esm_draw", 10, func(w *World, r *Rng) *Event {
				if w.Cdp == nil || w.Cfg.K("esm") == 0 {
					return nil
				}
				ctx := w.Ctx()
				if st, found := w.App.EsmKeeper.GetESMStatus(ctx, w.Cdp.AppID); !found || !st.Status {
					return nil
				}
				for tries := 0; tries < 6; tries++ {
					a := w.cdpUser(r)
					prod := w.pickProduct(r, false)
					v, ok := w.userVault(a, prod)
					if !ok {
						continue
					}
					max, ok := w.maxDebtFor(prod, v.AmountIn)
					if !ok {
						continue
					}
					room := max.Sub(v.AmountOut).Sub(v.InterestAccumulated).Sub(v.ClosingFeeAccumulated)
					if room.LT(sdk.NewInt(100)) {
						continue
					}
					amt := room.MulRaw(r.Range(1, 50)).QuoRaw(100)
					return w.TxEvent("vault.draw", a, &vaulttypes.MsgDrawRequest{From: a.Bech(), AppId: prod.AppID, ExtendedPairVaultId: prod.ExtID, UserVaultId: v.Id, Amount: posInt(amt)})
				}
				return nil
			}},
		)
		return g
	}
}

// setupEsm registers trigger params for the cdp app (called from setupCdp when knob esm != 0).
func setupEsm(w *World, r *Rng) {
	if w.Cfg.K("esm") == 0 {
		return
	}
	p := w.Cdp
	var ids []uint64
	var rates []uint64
	for _, a := range p.Assets {
		ids = append(ids, a.ID)
		rates = append(rates, 1000000)
	}
	err := w.App.EsmKeeper.AddESMTriggerParamsForApp(w.Ctx(), &bindings.MsgAddESMTriggerParams{AppID: p.AppID,
		TargetValue: sdk.NewCoin(p.Gov.Denom, sdk.NewInt(r.Range(1, 5)*1000000)), CoolOffPeriod: uint64([]int64{30, 600, 86400}[r.Intn(3)]), AssetID: ids, Rates: rates})
	if err != nil {
		panic(err)
	}
}

// ---------- oracle ----------

type c14Class int

const (
	c14None        c14Class = iota
	c14VaultOpen            // open / enlarge / draw from a vault (incl. stable-mint)           -> refused under breaker; mints debt
	c14VaultEnlarge         // deposit collateral                                               -> refused under breaker
	c14VaultReduce          // repay / close / withdraw (incl. stable-mint withdraw)            -> refused under breaker
	c14LockerOpen           // create / deposit                                                 -> refused under breaker
	c14LendOpen             // lend / deposit / borrow / draw / deposit-borrow / borrow-alternate -> refused under breaker
)

type c14Pre struct {
	class       c14Class
	app         uint64
	name        string
	mints       bool
	withdraw    bool
	breaker     bool
	esm         bool
	klswRecord  bool
	coolOffOver bool
	needPrice   bool
	priceOK     bool
}

type c14Oracle struct {
	pre        c14Pre
	lastLocked uint64
	registered bool
	blockVio   *Violation
}

func (o *c14Oracle) ID() string { return "c14.controls" }

func (o *c14Oracle) classify(w *World, m sdk.Msg) c14Pre {
	p := c14Pre{}
	ctx := w.Ctx()
	vaultPrice := func(ext uint64) {
		in, out, ok := w.extAssets(ext)
		if !ok {
			return
		}
		ep, _ := w.App.AssetKeeper.GetPairsVault(ctx, ext)
		p.needPrice, p.priceOK = true, true
		if t, f := w.App.MarketKeeper.GetTwa(ctx, in.ID); !f || !t.IsPriceActive {
			p.priceOK = false
		}
		if ep.AssetOutOraclePrice {
			if t, f := w.App.MarketKeeper.GetTwa(ctx, out.ID); !f || !t.IsPriceActive {
				p.priceOK = false
			}
		}
	}
	switch x := m.(type) {
	case *vaulttypes.MsgCreateRequest:
		p.class, p.app, p.name, p.mints = c14VaultOpen, x.AppId, "vault.create", true
		vaultPrice(x.ExtendedPairVaultId)
	case *vaulttypes.MsgDrawRequest:
		p.class, p.app, p.name, p.mints = c14VaultOpen, x.AppId, "vault.draw", true
		vaultPrice(x.ExtendedPairVaultId)
	case *vaulttypes.MsgDepositAndDrawRequest:
		p.class, p.app, p.name, p.mints = c14VaultOpen, x.AppId, "vault.deposit_draw", true
		vaultPrice(x.ExtendedPairVaultId)
	case *vaulttypes.MsgCreateStableMintRequest:
		p.class, p.app, p.name, p.mints = c14VaultOpen, x.AppId, "stable.create", true
	case *vaulttypes.MsgDepositStableMintRequest:
		p.class, p.app, p.name, p.mints = c14VaultOpen, x.AppId, "stable.deposit", true
	case *vaulttypes.MsgDepositRequest:
		p.class, p.app, p.name = c14VaultEnlarge, x.AppId, "vault.deposit"
	case *vaulttypes.MsgRepayRequest:
		p.class, p.app, p.name = c14VaultReduce, x.AppId, "vault.repay"
	case *vaulttypes.MsgCloseRequest:
		p.class, p.app, p.name = c14VaultReduce, x.AppId, "vault.close"
	case *vaulttypes.MsgWithdrawRequest:
		p.class, p.app, p.name, p.withdraw = c14VaultReduce, x.AppId, "vault.withdraw", true
		vaultPrice(x.ExtendedPairVaultId)
	case *vaulttypes.MsgWithdrawStableMintRequest:
		p.class, p.app, p.name = c14VaultReduce, x.AppId, "stable.withdraw"
	case *lockertypes.MsgCreateLockerRequest:
		p.class, p.app, p.name = c14LockerOpen, x.AppId, "locker.create"
	case *lockertypes.MsgDepositAssetRequest:
		p.class, p.app, p.name = c14LockerOpen, x.AppId, "locker.deposit"
	case *lendtypes.MsgLend:
		p.class, p.app, p.name = c14LendOpen, x.AppId, "lend.lend"
	case *lendtypes.MsgBorrowAlternate:
		p.class, p.app, p.name = c14LendOpen, x.AppId, "lend.borrow_alternate"
	case *lendtypes.MsgDeposit:
		if l, ok := w.App.LendKeeper.GetLend(ctx, x.LendId); ok {
			p.class, p.app, p.name = c14LendOpen, l.AppID, "lend.deposit"
		}
	case *lendtypes.MsgBorrow:
		if l, ok := w.App.LendKeeper.GetLend(ctx, x.LendId); ok {
			p.class, p.app, p.name = c14LendOpen, l.AppID, "lend.borrow"
		}
	case *lendtypes.MsgDraw:
		if b, ok := w.App.LendKeeper.GetBorrow(ctx, x.BorrowId); ok {
			if l, ok := w.App.LendKeeper.GetLend(ctx, b.LendingID); ok {
				p.class, p.app, p.name = c14LendOpen, l.AppID, "lend.draw"
			}
		}
	case *lendtypes.MsgDepositBorrow:
		if b, ok := w.App.LendKeeper.GetBorrow(ctx, x.BorrowId); ok {
			if l, ok := w.App.LendKeeper.GetLend(ctx, b.LendingID); ok {
				p.class, p.app, p.name = c14LendOpen, l.AppID, "lend.deposit_borrow"
			}
		}
	}
	if p.class == c14None {
		return p
	}
	ks, hasKs := w.App.EsmKeeper.GetKillSwitchData(ctx, p.app)
	p.breaker = ks.BreakerEnable
	p.klswRecord = hasKs
	if st, found := w.App.EsmKeeper.GetESMStatus(ctx, p.app); found && st.Status {
		p.esm = true
		p.coolOffOver = ctx.BlockTime().After(st.EndTime)
	}
	return p
}

func (o *c14Oracle) Before(w *World, ev *Event) {
	if !o.registered {
		o.registered = true
		o.lastLocked = w.App.NewliqKeeper.GetLockedVaultID(w.Ctx())
		w.OnBlock = append(w.OnBlock, o.onBlock)
	}
	o.pre = c14Pre{}
	if ev.Kind != "tx" {
		return
	}
	msgs, err := w.DecodeMsgs(ev)
	if err != nil || len(msgs) != 1 {
		return
	}
	o.pre = o.classify(w, msgs[0])
}

// onBlock: anything the block hooks seized or put up for auction in this BeginBlock.
func (o *c14Oracle) onBlock(w *World) {
	ctx := w.Ctx()
	cur := w.App.NewliqKeeper.GetLockedVaultID(ctx)
	if cur > o.lastLocked {
		for _, lv := range w.App.NewliqKeeper.GetLockedVaults(ctx) {
			if lv.LockedVaultId <= o.lastLocked {
				continue
			}
			ks, _ := w.App.EsmKeeper.GetKillSwitchData(ctx, lv.AppId)
			if !ks.BreakerEnable {
				continue
			}
			kind := "liquidation_sweep_seized_position"
			if lv.InitiatorType == "surplus" || lv.InitiatorType == "debt" {
				kind = "new_" + lv.InitiatorType + "_auction_started"
			}
			if o.blockVio == nil {
				o.blockVio = &Violation{Property: "C14", OracleID: "c14.breaker_hooks", Signature: kind + "_under_breaker",
					Detail: fmt.Sprintf("height %d: block hooks created locked vault %d (%s) for app %d while its circuit breaker is enabled", w.Height(), lv.LockedVaultId, lv.InitiatorType, lv.AppId)}
			}
		}
		w.Stats.Probe("c14.block_with_new_locked_vaults")
	}
	o.lastLocked = cur
	for _, ap := range func() []uint64 {
		apps, _ := w.App.AssetKeeper.GetApps(ctx)
		var ids []uint64
		for _, a := range apps {
			ids = append(ids, a.Id)
		}
		return ids
	}() {
		ks, _ := w.App.EsmKeeper.GetKillSwitchData(ctx, ap)
		if ks.BreakerEnable {
			w.Stats.Probe("c14.block_under_breaker")
		}
	}
}

func (o *c14Oracle) After(w *World, ev *Event, res Result) *Violation {
	// keeper-message seizures inside txs are not constrained by the statement: just move the watermark
	if ev.Kind == "tx" {
		o.lastLocked = w.App.NewliqKeeper.GetLockedVaultID(w.Ctx())
	}
	if o.blockVio != nil {
		v := o.blockVio
		o.blockVio = nil
		return v
	}
	p := o.pre
	if p.class == c14None || ev.Kind != "tx" {
		return nil
	}
	ok := res.Tx.OK()
	if p.breaker {
		w.Stats.Probe("c14.message_under_breaker")
		w.Stats.Transition("breaker:" + p.name)
		if ok {
			return &Violation{Property: "C14", OracleID: "c14.breaker", Signature: "accepted_under_breaker:" + p.name,
				Detail: fmt.Sprintf("%s for app %d succeeded while the app's circuit breaker is enabled", p.name, p.app)}
		}
		return nil
	}
	if p.esm {
		w.Stats.Probe("c14.message_after_esm")
		if p.mints {
			w.Stats.Probe("c14.mint_attempt_after_esm")
			if !p.klswRecord {
				// the guards read two records (shutdown status, kill-switch data); the app has only the first
				w.Stats.Probe("c14.mint_attempt_after_esm_without_kill_switch_record")
			}
		}
		w.Stats.Transition("esm:" + p.name)
		if p.mints && ok {
			return &Violation{Property: "C14", OracleID: "c14.esm", Signature: "debt_minted_after_shutdown:" + p.name,
				Detail: fmt.Sprintf("%s for app %d succeeded after emergency shutdown was executed", p.name, p.app)}
		}
		if p.withdraw && p.coolOffOver && ok {
			return &Violation{Property: "C14", OracleID: "c14.esm", Signature: "collateral_withdrawn_after_cool_off",
				Detail: fmt.Sprintf("vault.withdraw for app %d succeeded after the cool-off period of the executed emergency shutdown", p.app)}
		}
		if p.withdraw && !p.coolOffOver && ok {
			w.Stats.Probe("c14.withdraw_during_cool_off_ok")
		}
		return nil
	}
	if p.needPrice && !p.priceOK {
		w.Stats.Probe("c14.message_with_inactive_price")
		if ok {
			return &Violation{Property: "C14", OracleID: "c14.price", Signature: "succeeded_with_inactive_price:" + p.name,
				Detail: fmt.Sprintf("%s for app %d succeeded although a required oracle price is inactive", p.name, p.app)}
		}
	}
	return nil
}
