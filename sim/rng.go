package main

import (
	"math/big"
)

// Rng is the only source of choice in a run: xoshiro256** seeded via splitmix64.
// Logging and oracles never draw from it.
type Rng struct {
	s     [4]uint64
	Draws uint64
}

func splitmix64(x *uint64) uint64 {
	*x += 0x9e3779b97f4a7c15
	z := *x
	z = (z ^ (z >> 30)) * 0xbf58476d1ce4e5b9
	z = (z ^ (z >> 27)) * 0x94d049bb133111eb
	return z ^ (z >> 31)
}

func NewRng(seed uint64) *Rng {
	r := &Rng{}
	x := seed
	for i := 0; i < 4; i++ {
		r.s[i] = splitmix64(&x)
	}
	return r
}

// MixSeed derives a sub-seed from a seed, a label and an index.
func MixSeed(seed uint64, label string, idx uint64) uint64 {
	x := seed
	h := splitmix64(&x)
	for _, c := range []byte(label) {
		h ^= uint64(c)
		h *= 0x100000001b3
		x = h
		h = splitmix64(&x)
	}
	x = h ^ (idx * 0x9e3779b97f4a7c15)
	return splitmix64(&x)
}

func rotl(x uint64, k uint) uint64 { return (x << k) | (x >> (64 - k)) }

func (r *Rng) U64() uint64 {
	r.Draws++
	s := &r.s
	res := rotl(s[1]*5, 7) * 9
	t := s[1] << 17
	s[2] ^= s[0]
	s[3] ^= s[1]
	s[1] ^= s[2]
	s[0] ^= s[3]
	s[2] ^= t
	s[3] = rotl(s[3], 45)
	return res
}

// Intn returns a value in [0,n).
func (r *Rng) Intn(n int) int {
	if n <= 0 {
		return 0
	}
	return int(r.U64() % uint64(n))
}

func (r *Rng) I64n(n int64) int64 {
	if n <= 0 {
		return 0
	}
	return int64(r.U64() % uint64(n))
}

// Range returns a value in [lo,hi].
func (r *Rng) Range(lo, hi int64) int64 {
	if hi <= lo {
		return lo
	}
	return lo + r.I64n(hi-lo+1)
}

func (r *Rng) Bool() bool { return r.U64()&1 == 1 }

// Chance returns true with probability num/den.
func (r *Rng) Chance(num, den int) bool { return r.Intn(den) < num }

func (r *Rng) Float() float64 { return float64(r.U64()>>11) / float64(1<<53) }

func (r *Rng) Pick(n int) int { return r.Intn(n) }

// BigBelow returns a uniformly distributed value in [0, n).
func (r *Rng) BigBelow(n *big.Int) *big.Int {
	if n.Sign() <= 0 {
		return big.NewInt(0)
	}
	words := (n.BitLen() + 63) / 64
	v := new(big.Int)
	for i := 0; i < words+1; i++ {
		v.Lsh(v, 64)
		v.Or(v, new(big.Int).SetUint64(r.U64()))
	}
	return v.Mod(v, n)
}

// Weighted picks an index according to integer weights.
func (r *Rng) Weighted(w []int) int {
	tot := 0
	for _, x := range w {
		tot += x
	}
	if tot <= 0 {
		return 0
	}
	k := r.Intn(tot)
	for i, x := range w {
		if k < x {
			return i
		}
		k -= x
	}
	return len(w) - 1
}
