package main

import (
	"crypto/sha256"
	"encoding/hex"
	"fmt"
	"math"
)

func mathPow(b, e float64) float64 { return math.Pow(b, e) }

// Scenario = set-up + generators + scheduling knobs.
type Scenario struct {
	Name    string
	NActors int
	Draw    func(r *Rng, cfg *Config)
	Setup   func(w *World)
	Gens    func(w *World) []OpGen
	PBlock  int // permille: next event is a block boundary
}

var scenarios = map[string]*Scenario{}

// Sched generates the next event(s) of a run from the PRNG and the observed state.
type Sched struct {
	W     *World
	R     *Rng
	Sc    *Scenario
	gens  []OpGen
	wts   []int
	queue []*Event
	// self-calibrated gas per op tag for tx.oog faults
	gasSeen map[string]int64
}

func NewSched(w *World, r *Rng, sc *Scenario) *Sched {
	s := &Sched{W: w, R: r, Sc: sc, gasSeen: map[string]int64{}}
	s.gens = sc.Gens(w)
	for _, g := range s.gens {
		s.wts = append(s.wts, g.Weight)
	}
	return s
}

func (s *Sched) gap() int64 {
	r := s.R
	switch s.W.Cfg.K("gap_profile") {
	case 0:
		return r.Range(1, 10)
	case 1:
		if r.Chance(1, 5) {
			return r.Range(600, 6*3600)
		}
		return r.Range(1, 30)
	case 2:
		switch r.Intn(10) {
		case 0:
			return r.Range(86400, 90*86400)
		case 1, 2:
			return r.Range(3600, 86400)
		case 3:
			return 0
		}
		return r.Range(1, 60)
	default:
		if r.Chance(1, 40) {
			return r.Range(200*86400, 800*86400)
		}
		return 6
	}
}

func (s *Sched) pktFault() int {
	if s.W.Cdp != nil {
		return s.W.Cdp.PktFault
	}
	return int(s.W.Cfg.K("pkt_fault"))
}

// Next returns the next event.
func (s *Sched) Next() *Event {
	w, r := s.W, s.R
	h := w.Height()
	bandDue := w.Band != nil && (h+1)%20 == 0 && w.Band.LastPeriod != (h+1)/20
	if len(s.queue) > 0 && !(bandDue && s.queue[0].Kind == "block") {
		ev := s.queue[0]
		s.queue = s.queue[1:]
		return ev
	}
	if bandDue {
		evs := w.Band.RelayerEvents(w, r, s.pktFault(), w.Cfg.K("path_mode"), w.Cfg.K("vol"))
		if len(evs) > 0 {
			s.queue = append(append([]*Event{}, evs[1:]...), s.queue...)
			return evs[0]
		}
	}
	if len(s.queue) > 0 {
		ev := s.queue[0]
		s.queue = s.queue[1:]
		return ev
	}
	if r.Intn(1000) < s.Sc.PBlock {
		n := int64(1)
		switch r.Intn(8) {
		case 0:
			n = r.Range(2, 6)
		case 1:
			n = 20 // run up to the next oracle boundary
		case 2:
			n = r.Range(6, 40)
		}
		if w.Band != nil {
			dist := 19 - h%20
			if dist <= 0 {
				dist += 20
			}
			if n > dist {
				n = dist
			}
		}
		// stop right before the swap-fee conversion boundary (height % 150 == 0), so that hooks at that boundary are
		// always preceded by an observation point
		if d := 149 - h%150; d > 0 && n > d {
			n = d
		}
		ev := &Event{Kind: "block", Tag: "block", GapS: s.gap(), N: int(n)}
		if ev.GapS > 3600 {
			ev.Fault = "clock.gap"
		}
		return ev
	}
	for tries := 0; tries < 8; tries++ {
		g := s.gens[r.Weighted(s.wts)]
		ev := g.Gen(w, r)
		if ev == nil {
			continue
		}
		if ev.Tag == "" {
			ev.Tag = g.Name
		}
		if len(ev.then) > 0 {
			s.queue = append(s.queue, ev.then...)
			ev.then = nil
		}
		if ev.Kind == "tx" {
			oog := int(w.Cfg.K("oog"))
			if oog > 0 && r.Intn(1000) < oog {
				if g, ok := s.gasSeen[ev.Tag]; ok && g > 70000 {
					ev.Gas = uint64(r.Range(60000, g-1))
					ev.Fault = "tx.oog"
				}
			}
		}
		return ev
	}
	return &Event{Kind: "block", Tag: "block", GapS: s.gap(), N: 1}
}

// Observe lets the scheduler learn from results (gas calibration only; no PRNG draws).
func (s *Sched) Observe(ev *Event, res Result) {
	if ev.Kind == "tx" && res.Tx.OK() && ev.Fault == "" {
		s.gasSeen[ev.Tag] = res.Tx.GasUsed
	}
}

// traceHasher accumulates a digest of the executed trace (events + outcomes) for distinctness and determinism checks.
type traceHasher struct {
	h [32]byte
	n int
}

func (t *traceHasher) add(s string) {
	x := sha256.Sum256(append(t.h[:], []byte(s)...))
	t.h = x
	t.n++
}

func (t *traceHasher) hex() string { return hex.EncodeToString(t.h[:8]) }

func evSummary(ev *Event, res Result) string {
	switch ev.Kind {
	case "tx":
		return fmt.Sprintf("tx:%s:a%d:code=%d:gas=%d", ev.Tag, ev.Actor, res.Tx.Code, res.Tx.GasUsed)
	case "block":
		return fmt.Sprintf("block:n=%d:gap=%d", ev.N, ev.GapS)
	case "band_ack", "band_resp":
		return fmt.Sprintf("%s:%d:%v:%v", ev.Kind, ev.ReqID, ev.Rates, res.Err != nil)
	case "admin":
		return fmt.Sprintf("admin:%s:%v", ev.Admin, res.Err != nil)
	}
	return ev.Kind + ":" + ev.Tag
}
