package main

import (
	"fmt"
	"math/big"
	"sort"

	sdk "github.com/cosmos/cosmos-sdk/types"

	bandtypes "github.com/comdex-official/comdex/x/bandoracle/types"
)

// ---------- scenario "oracle": the price pipeline under a hostile transport ----------

func drawOracleConfig(r *Rng, cfg *Config) {
	k := cfg.Knobs
	k["twa_batch"] = []int64{1, 2, 3, 5, 10}[r.Intn(5)]
	k["accepted_diff"] = []int64{20, 40, 100}[r.Intn(3)]
	k["n_oracle_assets"] = r.Range(1, 4)
	k["pkt_fault"] = []int64{0, 100, 300, 600}[r.Intn(4)]
	k["extreme"] = int64(r.Intn(4)) // 0 none, 1 some max-uint64, 2 many zeros, 3 repeated values
	k["gap_profile"] = 0
	k["add_asset"] = int64(r.Intn(3))
}

type OraclePlan struct {
	Assets []*AssetInfo
}

func setupOracle(w *World) {
	cfg := &w.Cfg
	r := NewRng(MixSeed(cfg.Seed, "setup", 0))
	w.addApp("harbor", "hbr")
	n := int(cfg.K("n_oracle_assets"))
	names := []string{"CMDX", "ATOM", "OSMO", "AXL"}
	plan := &OraclePlan{}
	w.addAsset("FIXED", "ufixed", pow10(6), false, false)
	for i := 0; i < n; i++ {
		a := &AssetInfo{Name: names[i], Denom: "u" + string([]byte{byte('a' + i)}) + "orc", Decimals: pow10(decChoices[r.Intn(3)]), Oracle: true, OIdx: i}
		a.ID = w.addAsset(a.Name, a.Denom, a.Decimals, true, false)
		plan.Assets = append(plan.Assets, a)
	}
	w.X["oracle_plan"] = plan
	w.SetupBand(uint64(cfg.K("twa_batch")), cfg.K("accepted_diff"))
	w.Band.Prices = make([]uint64, n)
	for i := range w.Band.Prices {
		w.Band.Prices[i] = uint64(r.Range(1, 100000000))
	}
	w.Band.Custom = oracleRelayer
	m := newTwaModel(w)
	w.X["twa_model"] = m
	w.OnBlock = append(w.OnBlock, m.onBlock)
}

// oracleRelayer: richer fates and extreme samples than the default relayer.
func oracleRelayer(w *World, r *Rng) []*Event {
	b := w.Band
	ext := w.Cfg.K("extreme")
	nOracle := 0
	for _, a := range w.App.AssetKeeper.GetAssets(w.Ctx()) {
		if a.IsOraclePriceRequired {
			nOracle++
		}
	}
	for len(b.Prices) < nOracle {
		b.Prices = append(b.Prices, uint64(r.Range(1, 100000000)))
	}
	// next samples
	for i := range b.Prices {
		switch {
		case ext == 1 && r.Chance(1, 3):
			b.Prices[i] = ^uint64(0) - uint64(r.Intn(3))
		case ext == 2 && r.Chance(1, 4):
			b.Prices[i] = 0
		case ext == 3 && r.Chance(1, 2):
			// repeat
		case r.Chance(1, 12):
			b.Prices[i] = 0
		case r.Chance(1, 40):
			b.Prices[i] = ^uint64(0)
		default:
			b.Prices[i] = uint64(r.Range(1, 1<<40))
		}
	}
	b.NextReqID++
	id := b.NextReqID
	rates := append([]uint64(nil), b.Prices...)
	clean := []*Event{b.AckEvent(id), b.RespEvent(id, rates)}
	f := int(w.Cfg.K("pkt_fault"))
	if f == 0 || r.Intn(1000) >= f {
		return clean
	}
	switch r.Intn(10) {
	case 0, 1: // silence
		b.NextReqID--
		return []*Event{{Kind: "check", Tag: "band.silence", Fault: "pkt.drop_both"}}
	case 2:
		e := b.RespEvent(id, rates)
		e.Fault = "pkt.drop_ack"
		b.NextReqID--
		return []*Event{e}
	case 3:
		e := b.AckEvent(id)
		e.Fault = "pkt.drop_resp"
		return []*Event{e}
	case 4:
		e := b.RespEvent(id, rates)
		e.Fault = "pkt.reorder"
		return []*Event{e, b.AckEvent(id)}
	case 5:
		e := b.AckEvent(id)
		e.Fault = "pkt.dup"
		return []*Event{clean[0], clean[1], e, b.RespEvent(id, rates)}
	case 6:
		if len(rates) > 0 {
			rates = rates[:r.Intn(len(rates))]
		}
		e := b.RespEvent(id, rates)
		e.Fault = "pkt.short"
		return []*Event{b.AckEvent(id), e}
	case 7:
		e := b.AckEvent(id - 1)
		e.Fault = "pkt.stale"
		b.NextReqID--
		return []*Event{e}
	case 8: // delayed: response of an older request id re-delivered after the new one (must not matter)
		e := b.RespEvent(id-1, rates)
		e.Fault = "pkt.delay_old_resp"
		return []*Event{clean[0], clean[1], e}
	default:
		e := b.RespEvent(id, rates)
		e.Chan = "channel-666"
		e.Fault = "pkt.wrong_channel"
		return []*Event{b.AckEvent(id), e}
	}
}

func oracleGens() []OpGen {
	return []OpGen{
		{"oracle.consumer_probe", 10, func(w *World, r *Rng) *Event {
			return &Event{Kind: "check", Tag: "oracle.consumer_probe"}
		}},
		{"oracle.add_asset", 1, func(w *World, r *Rng) *Event {
			if w.Cfg.K("add_asset") == 0 || w.Height() < 30 {
				return nil
			}
			n := len(w.App.AssetKeeper.GetAssets(w.Ctx()))
			if n >= 7 {
				return nil
			}
			name := []string{"NEWA", "NEWB", "NEWC", "NEWD", "NEWE", "NEWF", "NEWG", "NEWH"}[n]
			return &Event{Kind: "admin", Admin: "add_oracle_asset", Tag: "oracle.add_asset", Args: map[string]string{"name": name, "denom": "u" + string([]byte{byte('a' + n)}) + "new"}}
		}},
	}
}

func init() {
	adminOps["add_oracle_asset"] = func(w *World, ev *Event) error {
		ctx := w.Ctx()
		if w.App.AssetKeeper.HasAssetForDenom(ctx, ev.Args["denom"]) {
			return fmt.Errorf("exists")
		}
		w.SetupPhase = true // writable context for the asset record
		defer func() { w.SetupPhase = false }()
		w.addAsset(ev.Args["name"], ev.Args["denom"], pow10(6), true, false)
		return nil
	}
	scenarios["oracle"] = &Scenario{Name: "oracle", NActors: 2, Draw: drawOracleConfig, Setup: setupOracle,
		Gens: func(w *World) []OpGen { return oracleGens() }, PBlock: 700}
}

// ---------- reference model ----------

// candidate window contents for one asset: ordered accepted positive samples since the last (possible) clearing.
type twaCand struct {
	hist []uint64
}

type assetModel struct {
	cands       []twaCand // possible windows (more than one only after an outage whose length is near the configured gap)
	zeroPending bool
	outageStart int64 // height at which the current per-asset or feed outage began (0 = none)
	everSample  bool
	lastZero    bool
	feedPending bool // deactivated by a feed outage; needs a fresh positive sample
	feedStart   int64
}

type twaModel struct {
	n         uint64
	diff      int64
	assets    map[uint64]*assetModel
	feedDown  bool
	feedStart int64
	lastVio   *Violation
	fetches   int
}

func newTwaModel(w *World) *twaModel {
	return &twaModel{n: w.Band.TwaBatch, diff: w.Band.AcceptedDiff, assets: map[uint64]*assetModel{}}
}

func meanLastN(h []uint64, n uint64) uint64 {
	s := new(big.Int)
	for _, v := range h[uint64(len(h))-n:] {
		s.Add(s, new(big.Int).SetUint64(v))
	}
	s.Quo(s, new(big.Int).SetUint64(n))
	return s.Uint64()
}

// outageChoices: after an outage of length L blocks, which continuations does "as configured" allow?
func (m *twaModel) outageChoices(length int64) (keep, clear bool) {
	if length < m.diff-20 {
		return true, false
	}
	if length > m.diff+20 {
		return false, true
	}
	return true, true
}

func (m *twaModel) onBlock(w *World) {
	ctx := w.Ctx()
	h := w.Height()
	bk := w.App.BandoracleKeeper
	valid := bk.GetOracleValidationResult(ctx)
	// feed-level outage bookkeeping (observed input of the market module)
	if !valid {
		if !m.feedDown {
			m.feedDown = true
			m.feedStart = h
		}
		for _, am := range m.assets {
			if !am.feedPending {
				am.feedPending = true
				am.feedStart = h
			}
		}
	}
	if h%20 == 0 && bk.GetLastBlockHeight(ctx) != 0 && valid {
		m.fetches++
		feedOutage := int64(0)
		if m.feedDown {
			m.feedDown = false
			w.Stats.Probe("c17.feed_outage_ended")
		}
		id := bk.GetLastFetchPriceID(ctx)
		data, err := bk.GetFetchPriceResult(ctx, bandtypes.OracleRequestID(id))
		if err == nil && data.Rates != nil {
			idx := -1
			for _, a := range w.App.AssetKeeper.GetAssets(ctx) {
				if !a.IsOraclePriceRequired {
					continue
				}
				idx++
				if idx >= len(data.Rates) {
					continue
				}
				m.sample(w, a.Id, data.Rates[idx], h, feedOutage)
			}
		}
	} else if valid && m.feedDown && h%20 != 0 {
		// validation flips only at fetch heights; keep waiting
	}
	func() {
		defer func() {
			if r := recover(); r != nil && m.lastVio == nil {
				m.lastVio = &Violation{Property: "C17", OracleID: "c17.consumer", Signature: "consumer_query_panicked:" + panicSig(fmt.Sprint(r)),
					Detail: fmt.Sprintf("height %d: a price query (GetTwa / CalcAssetPrice / GetLatestPrice) panicked: %v", w.Height(), r)}
			}
		}()
		if v := m.compare(w); v != nil && m.lastVio == nil {
			m.lastVio = v
		}
	}()
}

func (m *twaModel) sample(w *World, id uint64, rate uint64, h int64, feedOutage int64) {
	am := m.assets[id]
	if am == nil {
		if rate == 0 {
			return
		}
		am = &assetModel{cands: []twaCand{{}}}
		m.assets[id] = am
	}
	if rate == 0 {
		w.Stats.Probe("c17.zero_sample")
		if !am.zeroPending {
			am.zeroPending = true
			am.outageStart = h
		}
		am.lastZero = true
		return
	}
	am.lastZero = false
	// outage(s) ending with this positive sample
	type outage struct {
		L    int64
		feed bool
	}
	var lengths []outage
	if am.zeroPending {
		lengths = append(lengths, outage{h - am.outageStart, false})
		am.zeroPending = false
	}
	if am.feedPending {
		lengths = append(lengths, outage{h - am.feedStart, true})
		am.feedPending = false
	}
	for _, o := range lengths {
		keep, clear := m.outageChoices(o.L)
		if o.feed {
			// the statement configures the gap for zero samples only; after a feed-level outage either continuation is accepted
			keep, clear = true, true
		}
		var next []twaCand
		for _, c := range am.cands {
			if keep {
				next = append(next, c)
			}
			if clear {
				next = append(next, twaCand{})
			}
		}
		am.cands = dedupCands(next)
	}
	for i := range am.cands {
		hcopy := append(append([]uint64(nil), am.cands[i].hist...), rate)
		if uint64(len(hcopy)) > m.n+2 {
			hcopy = hcopy[uint64(len(hcopy))-m.n-2:]
		}
		am.cands[i].hist = hcopy
	}
	am.everSample = true
	if rate == ^uint64(0) || rate > 1<<63 {
		w.Stats.Probe("c17.huge_sample")
	}
}

func dedupCands(cs []twaCand) []twaCand {
	seen := map[string]bool{}
	var out []twaCand
	for _, c := range cs {
		k := fmt.Sprint(c.hist)
		if !seen[k] {
			seen[k] = true
			out = append(out, c)
		}
	}
	if len(out) > 8 {
		out = out[:8]
	}
	return out
}

// compare checks the chain's published TWA state against the model; prunes candidates by observation.
func (m *twaModel) compare(w *World) *Violation {
	ctx := w.Ctx()
	ids := make([]uint64, 0, len(m.assets))
	for id := range m.assets {
		ids = append(ids, id)
	}
	sort.Slice(ids, func(i, j int) bool { return ids[i] < ids[j] })
	// assets the chain has a record for but the model has never seen a positive sample for
	for _, twa := range w.App.MarketKeeper.GetAllTwa(ctx) {
		if _, ok := m.assets[twa.AssetID]; !ok && twa.IsPriceActive {
			return &Violation{Property: "C17", OracleID: "c17.activation", Signature: "active_without_samples",
				Detail: fmt.Sprintf("asset %d is active although no positive sample was ever delivered for it", twa.AssetID)}
		}
	}
	for _, id := range ids {
		am := m.assets[id]
		twa, found := w.App.MarketKeeper.GetTwa(ctx, id)
		if !found {
			// AddFetchPriceRecords-style wipe does not happen in this scenario; a missing record after samples is a lost window
			return &Violation{Property: "C17", OracleID: "c17.record", Signature: "record_missing", Detail: fmt.Sprintf("asset %d: price record disappeared", id)}
		}
		w.Stats.Probe("c17.compared")
		shouldBeDown := m.feedDown || am.zeroPending || am.feedPending
		if twa.IsPriceActive {
			if am.lastZero && am.zeroPending {
				return &Violation{Property: "C17", OracleID: "c17.zero", Signature: "active_after_zero_sample",
					Detail: fmt.Sprintf("asset %d is active although its latest sample was zero", id)}
			}
			// must match at least one candidate that has a full window
			var ok []twaCand
			var expect []uint64
			for _, c := range am.cands {
				if uint64(len(c.hist)) >= m.n {
					e := meanLastN(c.hist, m.n)
					expect = append(expect, e)
					if e == twa.Twa {
						ok = append(ok, c)
					}
				}
			}
			if len(expect) == 0 {
				return &Violation{Property: "C17", OracleID: "c17.activation", Signature: "active_before_full_window",
					Detail: fmt.Sprintf("asset %d is active with N=%d but only %d positive samples were received since the window was (re)started", id, m.n, len(am.cands[0].hist))}
			}
			if len(ok) == 0 {
				return &Violation{Property: "C17", OracleID: "c17.mean", Signature: "twa_not_integer_mean",
					Detail: fmt.Sprintf("asset %d: published TWA %d, integer mean of the most recent %d samples is %v (window %v)", id, twa.Twa, m.n, expect, am.cands[0].hist)}
			}
			am.cands = ok
			w.Stats.Probe("c17.active_mean_checked")
			if m.n >= 2 {
				w.Stats.Probe("c17.active_mean_checked_n_ge_2")
			}
		} else {
			// inactive: fine if down, or if some candidate lacks a full window
			if !shouldBeDown {
				var notFull []twaCand
				for _, c := range am.cands {
					if uint64(len(c.hist)) < m.n {
						notFull = append(notFull, c)
					}
				}
				if len(notFull) == 0 && am.everSample {
					return &Violation{Property: "C17", OracleID: "c17.activation", Signature: "inactive_with_full_window",
						Detail: fmt.Sprintf("asset %d is inactive although %d positive samples (N=%d) were received, the feed is valid and the latest sample is positive", id, len(am.cands[0].hist), m.n)}
				}
				am.cands = notFull
			}
			w.Stats.Probe("c17.inactive_observed")
		}
		// consumers
		_, err := w.App.MarketKeeper.CalcAssetPrice(ctx, id, sdk.NewInt(1000000))
		_, err2 := w.App.MarketKeeper.GetLatestPrice(ctx, id)
		if !twa.IsPriceActive && (err == nil || err2 == nil) {
			return &Violation{Property: "C17", OracleID: "c17.consumer", Signature: "value_of_inactive_price",
				Detail: fmt.Sprintf("asset %d is inactive but a consumer got a value (CalcAssetPrice err=%v, GetLatestPrice err=%v)", id, err, err2)}
		}
	}
	return nil
}

type c17Oracle struct{}

func (o *c17Oracle) ID() string                  { return "c17.twa" }
func (o *c17Oracle) Before(w *World, ev *Event) {}
func (o *c17Oracle) After(w *World, ev *Event, res Result) *Violation {
	m := w.X["twa_model"].(*twaModel)
	if ev.Kind == "block" && m.lastVio != nil {
		v := m.lastVio
		m.lastVio = nil
		return v
	}
	if ev.Kind == "check" {
		return m.compare(w)
	}
	return nil
}
