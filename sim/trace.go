package main

import (
	"encoding/json"
	"fmt"
	"os"
	"sort"
	"time"

	sdk "github.com/cosmos/cosmos-sdk/types"
	banktypes "github.com/cosmos/cosmos-sdk/x/bank/types"
)

// Event is one concrete, replayable step of a run. Nothing in it is regenerated on replay.
type Event struct {
	Kind  string            `json:"kind"`            // tx | block | band_ack | band_resp | admin | check
	Tag   string            `json:"tag,omitempty"`   // generator name (statistics only)
	Fault string            `json:"fault,omitempty"` // fault kind this event realises, if any
	Actor int               `json:"actor,omitempty"` // tx: signer index
	Msgs  []json.RawMessage `json:"msgs,omitempty"`  // tx: proto-JSON of each sdk.Msg
	Gas   uint64            `json:"gas,omitempty"`   // tx: gas limit
	GapS  int64             `json:"gap_s,omitempty"` // block: seconds between blocks
	N     int               `json:"n,omitempty"`     // block: number of blocks to advance (>=1)
	ReqID int64             `json:"req_id,omitempty"`
	Rates []uint64          `json:"rates,omitempty"`
	Chan  string            `json:"chan,omitempty"`
	Admin string            `json:"admin,omitempty"`
	Args  map[string]string `json:"args,omitempty"`

	msgs []sdk.Msg // decoded cache
	then []*Event  // generator-side only: events the scheduler emits right after this one (each is recorded on its own)
}

const defaultGas = 60_000_000

var failLog = os.Getenv("VERIF_FAILLOG") != ""

func (w *World) TxEvent(tag string, a *Actor, msgs ...sdk.Msg) *Event {
	ev := &Event{Kind: "tx", Tag: tag, Actor: a.Idx, Gas: defaultGas, msgs: msgs}
	for _, m := range msgs {
		bz, err := w.Enc.Marshaler.MarshalInterfaceJSON(m)
		if err != nil {
			panic(fmt.Sprintf("marshal msg %T: %v", m, err))
		}
		ev.Msgs = append(ev.Msgs, bz)
	}
	return ev
}

func (w *World) DecodeMsgs(ev *Event) ([]sdk.Msg, error) {
	if ev.msgs != nil {
		return ev.msgs, nil
	}
	var out []sdk.Msg
	for _, raw := range ev.Msgs {
		var m sdk.Msg
		if err := w.Enc.Marshaler.UnmarshalInterfaceJSON(raw, &m); err != nil {
			return nil, err
		}
		out = append(out, m)
	}
	ev.msgs = out
	return out, nil
}

// Result of applying an event.
type Result struct {
	Tx      TxResult
	Err     error // admin / band events
	Blocks  int
	Skipped bool
}

// Apply executes the event against the world.
func (w *World) Apply(ev *Event) Result {
	res := w.apply(ev)
	if ev.Kind != "block" && ev.Kind != "check" && !res.Skipped {
		w.CurBlock = append(w.CurBlock, ev)
		if w.RecordDigests && !w.replaying {
			switch ev.Kind {
			case "tx":
				w.Digests = append(w.Digests, "tx "+ev.Tag+" "+digestTx(res.Tx))
			default:
				w.Digests = append(w.Digests, fmt.Sprintf("%s %s err=%v", ev.Kind, ev.Tag, res.Err != nil))
			}
		}
		if ev.Kind == "tx" {
			w.maybeCrash("after_tx", len(w.CurBlock))
		}
	}
	return res
}

func (w *World) apply(ev *Event) Result {
	switch ev.Kind {
	case "tx":
		msgs, err := w.DecodeMsgs(ev)
		if err != nil {
			return Result{Err: err, Skipped: true}
		}
		if ev.Actor < 0 || ev.Actor >= len(w.Actors) {
			return Result{Err: fmt.Errorf("no actor"), Skipped: true}
		}
		gas := ev.Gas
		if gas == 0 {
			gas = defaultGas
		}
		res := w.DeliverMsgs(w.Actors[ev.Actor], gas, msgs...)
		w.Stats.Op(ev.Tag, res.OK())
		if ev.Fault != "" {
			w.Stats.Fault(ev.Fault)
		}
		if res.OK() {
			for _, m := range msgs {
				if ms, ok := m.(*banktypes.MsgSend); ok {
					to, _ := sdk.AccAddressFromBech32(ms.ToAddress)
					for _, c := range ms.Amount {
						w.AddUnsolicited(to, c)
					}
				}
			}
		}
		if w.Liq != nil {
			w.Liq.observe(w, true, false)
		}
		if !res.OK() && failLog {
			l := res.Log
			if len(l) > 160 {
				l = l[:160]
			}
			fmt.Printf("  FAIL %-22s h=%d %s\n", ev.Tag, w.Height(), l)
		}
		return Result{Tx: res}
	case "block":
		n := ev.N
		if n < 1 {
			n = 1
		}
		gap := ev.GapS
		if gap < 0 {
			gap = 0
		}
		for i := 0; i < n; i++ {
			w.EndBlockAndBegin(time.Duration(gap) * time.Second)
			if w.Panicked != "" {
				break
			}
		}
		if ev.Fault != "" {
			w.Stats.Fault(ev.Fault)
		}
		return Result{Blocks: n}
	case "band_ack":
		err := w.Band.DeliverAck(w, ev)
		if ev.Fault != "" {
			w.Stats.Fault(ev.Fault)
		}
		return Result{Err: err}
	case "band_resp":
		err := w.Band.DeliverResp(w, ev)
		if ev.Fault != "" {
			w.Stats.Fault(ev.Fault)
		}
		return Result{Err: err}
	case "admin":
		f, ok := adminOps[ev.Admin]
		if !ok {
			return Result{Err: fmt.Errorf("unknown admin op %s", ev.Admin), Skipped: true}
		}
		err := f(w, ev)
		w.Stats.Op("admin."+ev.Admin, err == nil)
		if ev.Fault != "" && err == nil {
			w.Stats.Fault(ev.Fault)
		}
		return Result{Err: err}
	case "check":
		// pure observation point for enumerating oracles (C12/C14/C15...); also carries "nothing delivered" faults
		if ev.Fault != "" {
			w.Stats.Fault(ev.Fault)
		}
		return Result{}
	}
	return Result{Err: fmt.Errorf("unknown event kind %q", ev.Kind), Skipped: true}
}

var adminOps = map[string]func(w *World, ev *Event) error{}

// Violation is what an oracle reports.
type Violation struct {
	Property  string `json:"property"`
	OracleID  string `json:"oracle_id"`
	Signature string `json:"signature"` // stable discriminator: what is wrong, not the numbers
	Detail    string `json:"detail"`
	Step      int    `json:"step"`
	Continue  bool   `json:"-"` // the oracle has accounted for this defect and can keep checking (only honoured for known findings)
}

func (v *Violation) Key() string { return v.Property + "|" + v.OracleID + "|" + v.Signature }

// Oracle checks one aspect of one property during a run.
type Oracle interface {
	ID() string
	Before(w *World, ev *Event)
	After(w *World, ev *Event, res Result) *Violation
}

// Stats are per-run counters, merged across runs for the evidence file.
type Stats struct {
	Blocks     int64
	Txs        int64
	TxsOK      int64
	SimSeconds int64
	Ops        map[string][2]int64 // tag -> [ok, failed]
	Faults     map[string]int64
	Probes     map[string]int64
	OracleEval int64
	States     map[string]struct{} // abstract states
	Trans      map[string]struct{}
}

func NewStats() *Stats {
	return &Stats{Ops: map[string][2]int64{}, Faults: map[string]int64{}, Probes: map[string]int64{}, States: map[string]struct{}{}, Trans: map[string]struct{}{}}
}

func (s *Stats) Op(tag string, ok bool) {
	v := s.Ops[tag]
	if ok {
		v[0]++
	} else {
		v[1]++
	}
	s.Ops[tag] = v
}
func (s *Stats) Fault(kind string)        { s.Faults[kind]++ }
func (s *Stats) Probe(name string)        { s.Probes[name]++ }
func (s *Stats) ProbeN(name string, n int64) { s.Probes[name] += n }
func (s *Stats) State(k string)           { s.States[k] = struct{}{} }
func (s *Stats) Transition(k string)      { s.Trans[k] = struct{}{} }

func (s *Stats) Merge(o *Stats) {
	s.Blocks += o.Blocks
	s.Txs += o.Txs
	s.TxsOK += o.TxsOK
	s.SimSeconds += o.SimSeconds
	s.OracleEval += o.OracleEval
	for k, v := range o.Ops {
		x := s.Ops[k]
		x[0] += v[0]
		x[1] += v[1]
		s.Ops[k] = x
	}
	for k, v := range o.Faults {
		s.Faults[k] += v
	}
	for k, v := range o.Probes {
		s.Probes[k] += v
	}
	for k := range o.States {
		s.States[k] = struct{}{}
	}
	for k := range o.Trans {
		s.Trans[k] = struct{}{}
	}
}

// StatsJSON is the serialisable form exchanged between worker and parent.
type StatsJSON struct {
	Blocks     int64               `json:"blocks"`
	Txs        int64               `json:"txs"`
	TxsOK      int64               `json:"txs_ok"`
	SimSeconds int64               `json:"sim_seconds"`
	OracleEval int64               `json:"oracle_evaluations"`
	Ops        map[string][2]int64 `json:"ops"`
	Faults     map[string]int64    `json:"faults"`
	Probes     map[string]int64    `json:"probes"`
	States     []string            `json:"states"`
	Trans      []string            `json:"trans"`
}

func (s *Stats) ToJSON() StatsJSON {
	j := StatsJSON{Blocks: s.Blocks, Txs: s.Txs, TxsOK: s.TxsOK, SimSeconds: s.SimSeconds, OracleEval: s.OracleEval, Ops: s.Ops, Faults: s.Faults, Probes: s.Probes}
	for k := range s.States {
		j.States = append(j.States, k)
	}
	sort.Strings(j.States)
	for k := range s.Trans {
		j.Trans = append(j.Trans, k)
	}
	sort.Strings(j.Trans)
	return j
}

func StatsFromJSON(j StatsJSON) *Stats {
	s := NewStats()
	s.Blocks, s.Txs, s.TxsOK, s.SimSeconds, s.OracleEval = j.Blocks, j.Txs, j.TxsOK, j.SimSeconds, j.OracleEval
	for k, v := range j.Ops {
		s.Ops[k] = v
	}
	for k, v := range j.Faults {
		s.Faults[k] = v
	}
	for k, v := range j.Probes {
		s.Probes[k] = v
	}
	for _, k := range j.States {
		s.States[k] = struct{}{}
	}
	for _, k := range j.Trans {
		s.Trans[k] = struct{}{}
	}
	return s
}
