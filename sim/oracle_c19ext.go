package main

import (
	"fmt"

	sdk "github.com/cosmos/cosmos-sdk/types"

	rewardstypes "github.com/comdex-official/comdex/x/rewards/types"
)

// External reward programmes (locker / vault) in the cdp scenario: C19's custody clause for "external reward programs".
// Generators are enabled by the knob ext_rewards_w (set by C19's TweakCfg for cdp runs only).

func extRewardGens() []OpGen {
	wt := func(w *World) bool { return w.Cdp != nil && w.Cfg.K("ext_rewards_w") > 0 }
	pickCoin := func(w *World, r *Rng, a *Actor) (sdk.Coin, bool) {
		// any asset of the scenario the depositor holds (several programmes in one denomination share the custody account)
		for tries := 0; tries < 4; tries++ {
			as := w.Cdp.Assets[r.Intn(len(w.Cdp.Assets))]
			bal := w.Bal(a.Addr, as.Denom)
			if bal.LT(sdk.NewInt(100000)) {
				continue
			}
			amt := bal.MulRaw(r.Range(1, 30)).QuoRaw(100)
			if r.Chance(1, 4) {
				amt = sdk.NewInt(r.Range(1000, 100000)) // small pots: daily shares with truncation remainders
			}
			if amt.IsInt64() && amt.IsPositive() {
				return sdk.NewCoin(as.Denom, amt), true
			}
		}
		return sdk.Coin{}, false
	}
	return []OpGen{
		{"ext.locker_program", 3, func(w *World, r *Rng) *Event {
			if !wt(w) || w.Cdp.Debt == nil {
				return nil
			}
			a := w.Actors[r.Intn(len(w.Actors))]
			c, ok := pickCoin(w, r, a)
			if !ok {
				return nil
			}
			days := r.Range(1, 6)
			lockup := []int64{1, 60, 3600, 90000}[r.Intn(4)]
			return w.TxEvent("ext.locker_program", a, rewardstypes.NewMsgActivateExternalRewardsLockers(w.Cdp.AppID, w.Cdp.Debt.ID, c, days, lockup, a.Addr))
		}},
		{"ext.vault_program", 2, func(w *World, r *Rng) *Event {
			if !wt(w) || len(w.Cdp.Products) == 0 {
				return nil
			}
			a := w.Actors[r.Intn(len(w.Actors))]
			c, ok := pickCoin(w, r, a)
			if !ok {
				return nil
			}
			p := w.Cdp.Products[r.Intn(len(w.Cdp.Products))]
			days := r.Range(1, 6)
			lockup := []int64{1, 60, 3600, 90000}[r.Intn(4)]
			return w.TxEvent("ext.vault_program", a, rewardstypes.NewMsgActivateExternalRewardsVault(p.AppID, p.ExtID, c, days, lockup, a.Addr))
		}},
		{"env.dayjump", 6, func(w *World, r *Rng) *Event {
			if !wt(w) {
				return nil
			}
			ctx := w.Ctx()
			if len(w.App.Rewardskeeper.GetExternalRewardsLockers(ctx))+len(w.App.Rewardskeeper.GetExternalRewardVaults(ctx)) == 0 {
				return nil
			}
			gap := 86400 + r.Range(1, 4000)
			if r.Chance(1, 6) {
				gap = r.Range(2*86400, 5*86400) // days skipped
			}
			return &Event{Kind: "block", Tag: "env.dayjump", GapS: gap, N: 1, Fault: "clock.gap"}
		}},
	}
}

type c19ExtOracle struct {
	reported map[uint64]bool // vault programmes whose overpayment was reported as the listed finding
}

// mintedUnderstated: the product's published tokens-minted total is below the principal of its open vaults (the state the
// listed C01 finding leaves behind after a V2 dutch settlement); the vault programme divides by that total.
func mintedUnderstated(w *World, app, ext uint64) bool {
	ctx := w.Ctx()
	data, found := w.App.VaultKeeper.GetAppExtendedPairVaultMappingData(ctx, app, ext)
	if !found {
		return false
	}
	sum := sdk.ZeroInt()
	for _, id := range data.VaultIds {
		if v, ok := w.App.VaultKeeper.GetVault(ctx, id); ok {
			sum = sum.Add(v.AmountOut)
		}
	}
	return data.TokenMintedAmount.LT(sum)
}

func (o *c19ExtOracle) ID() string                  { return "c19.ext" }
func (o *c19ExtOracle) Before(w *World, ev *Event) {}

func (o *c19ExtOracle) After(w *World, ev *Event, res Result) *Violation {
	if w.Cdp == nil {
		return nil
	}
	ctx := w.Ctx()
	rk := w.App.Rewardskeeper
	need := sdk.Coins{}
	n, paidSomething := 0, false
	check := func(kind string, id uint64, total, avail sdk.Coin, active bool) *Violation {
		n++
		if avail.Amount.IsNegative() || avail.Amount.GT(total.Amount) {
			return &Violation{Property: "C19", OracleID: "c19.ext_cumulative", Signature: "remainder_outside_deposit:" + kind,
				Detail: fmt.Sprintf("%s reward programme %d: deposit %s, recorded undistributed remainder %s, after %s", kind, id, total, avail, ev.Tag)}
		}
		if avail.Amount.LT(total.Amount) {
			paidSomething = true
		}
		// what is left of a finished programme stays in the account too (never paid out): it is part of the backing
		if avail.IsPositive() {
			need = need.Add(avail)
		}
		return nil
	}
	for _, p := range rk.GetExternalRewardsLockers(ctx) {
		if v := check("locker", p.Id, p.TotalRewards, p.AvailableRewards, p.IsActive); v != nil {
			return v
		}
	}
	if o.reported == nil {
		o.reported = map[uint64]bool{}
	}
	skew := sdk.Coins{} // overpayments explained by the listed finding: missing from custody by exactly that much
	for _, p := range rk.GetExternalRewardVaults(ctx) {
		if p.AvailableRewards.Amount.IsNegative() && (o.reported[p.Id] || mintedUnderstated(w, p.AppMappingId, p.ExtendedPairId)) {
			skew = skew.Add(sdk.NewCoin(p.AvailableRewards.Denom, p.AvailableRewards.Amount.Neg()))
			n++
			paidSomething = true
			if !o.reported[p.Id] {
				o.reported[p.Id] = true
				return &Violation{Property: "C19", OracleID: "c19.ext_cumulative", Signature: "vault_programme_overpaid:published_minted_total_understated", Continue: true,
					Detail: fmt.Sprintf("vault reward programme %d (deposit %s) has paid out %s more than its deposit: each vault's share is its principal over the product's published tokens-minted total, which is understated (listed C01 finding), so the shares add up to more than 1; after %s", p.Id, p.TotalRewards, p.AvailableRewards.Amount.Neg(), ev.Tag)}
			}
			continue
		}
		if v := check("vault", p.Id, p.TotalRewards, p.AvailableRewards, p.IsActive); v != nil {
			return v
		}
	}
	if n == 0 {
		return nil
	}
	mod := w.ModAddr(rewardstypes.ModuleName)
	for _, c := range need {
		have := w.Bal(mod, c.Denom).Sub(w.UnsolicitedAmt(mod, c.Denom)).Add(skew.AmountOf(c.Denom))
		if have.LT(c.Amount) {
			return &Violation{Property: "C19", OracleID: "c19.ext_custody", Signature: "less" + ctxTag(ev),
				Detail: fmt.Sprintf("rewards account holds %s %s (net of unsolicited) but the external reward programmes record an undistributed remainder of %s, after %s", have, c.Denom, c.Amount, ev.Tag)}
		}
	}
	w.Stats.Probe("c19.ext_program_custody_checked")
	if paidSomething {
		w.Stats.Probe("c19.ext_program_paid_out")
	}
	if n > 1 {
		w.Stats.Probe("c19.ext_several_programs")
	}
	return nil
}

// c10LendCustody (lend runs of C10): "no unaccounted remainder stays in auction custody". The lend scenario has dutch
// auctions only, so after every event the auctionsV2 account must hold exactly, per denomination, the unsold collateral
// of the live auctions plus the debt their bidders have paid so far (target debt minus outstanding debt).
type c10LendCustody struct{}

func (o *c10LendCustody) ID() string                  { return "c10.custody" }
func (o *c10LendCustody) Before(w *World, ev *Event) {}
func (o *c10LendCustody) After(w *World, ev *Event, res Result) *Violation {
	ctx := w.Ctx()
	claims := sdk.Coins{}
	for _, a := range w.App.NewaucKeeper.GetAuctions(ctx) {
		if !a.AuctionType {
			return nil // an English auction: not modelled here
		}
		if a.CollateralToken.IsPositive() {
			claims = claims.Add(a.CollateralToken)
		}
		if lv, ok := w.App.NewliqKeeper.GetLockedVault(ctx, a.AppId, a.LockedVaultId); ok {
			if c := lv.TargetDebt.Amount.Sub(a.DebtToken.Amount); c.IsPositive() {
				claims = claims.Add(sdk.NewCoin(a.DebtToken.Denom, c))
			}
		}
	}
	mod := w.ModAddr("auctionsV2")
	bal := w.App.BankKeeper.GetAllBalances(ctx, mod)
	for _, c := range bal {
		have := c.Amount.Sub(w.UnsolicitedAmt(mod, c.Denom))
		want := claims.AmountOf(c.Denom)
		if !have.Equal(want) {
			sig := "more"
			if have.LT(want) {
				sig = "less"
			}
			return &Violation{Property: "C10", OracleID: "c10.custody", Signature: "custody!=claims:" + sig + ctxTag(ev),
				Detail: fmt.Sprintf("auctionsV2 account holds %s %s (net of unsolicited) after %s, live dutch auctions account for %s (unsold collateral + debt paid so far)", have, c.Denom, ev.Tag, want)}
		}
	}
	for _, c := range claims {
		if bal.AmountOf(c.Denom).IsZero() {
			return &Violation{Property: "C10", OracleID: "c10.custody", Signature: "custody!=claims:less" + ctxTag(ev),
				Detail: fmt.Sprintf("auctionsV2 account holds no %s after %s, live dutch auctions account for %s", c.Denom, ev.Tag, c.Amount)}
		}
	}
	w.Stats.Probe("c10.lend_custody_checked")
	return nil
}
