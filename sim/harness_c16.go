package main

import (
	"bytes"
	storetypes "github.com/cosmos/cosmos-sdk/store/types"
	"encoding/json"
	"fmt"
	"os"
	"os/exec"
	"strings"
)

// c16Harness feeds the same event stream to several replicas and compares outcomes:
//   w0: primary, uninterrupted
//   w1: second instance built later in the same process
//   w2: instance that crashes (App object dropped, reopened from the durable DB) at plan-chosen phases and re-executes the interrupted block
//   r3/r4: fresh OS processes at GOMAXPROCS 1 and 16 replaying the recorded stream (at Finish)
type c16Harness struct {
	spec   *PropSpec
	cfg    Config
	w0     *World
	w1     *World
	w2     *World
	events []*Event
	cmpAt  [3]int // digest lines already compared
	setupVio *Violation
}

func crashPlanFor(seed uint64) func(w *World, phase string, idx int) bool {
	return func(w *World, phase string, idx int) bool {
		h := MixSeed(seed, phase, uint64(w.Hdr.Height)*131+uint64(idx))
		switch phase {
		case "after_tx":
			return h%23 == 0
		case "after_begin":
			return h%17 == 0
		case "before_commit":
			return h%13 == 0
		case "after_commit":
			return h%19 == 0
		}
		return false
	}
}

func (h *c16Harness) Start(cfg Config) {
	h.cfg = cfg
	h.w0 = buildWorld(cfg)
	h.w0.RecordDigests = true
	h.w1 = buildWorld(cfg)
	h.w1.RecordDigests = true
	h.w2 = buildWorld(cfg)
	h.w2.RecordDigests = true
	h.w2.CrashPlan = crashPlanFor(cfg.Seed)
	// set-up must already agree
	if a, b, c := h.w0.App.LastCommitID().Hash, h.w1.App.LastCommitID().Hash, h.w2.App.LastCommitID().Hash; string(a) != string(b) || string(a) != string(c) {
		// the set-up is itself a sequence of blocks and transactions executed from the same genesis on three instances
		// (the harness' own determinism is established separately by the self-test): report at the first step
		h.setupVio = &Violation{Property: "C16", OracleID: "c16.replica", Signature: "divergence:set-up",
			Detail: fmt.Sprintf("three in-process instances executed the same set-up blocks and transactions from the same genesis and committed different app hashes: %X %X %X", a, b, c)}
	}
}

func (h *c16Harness) World() *World { return h.w0 }

func cloneEvent(ev *Event) *Event {
	c := *ev
	c.msgs = nil
	return &c
}

func (h *c16Harness) Step(ev *Event, step int) (Result, *Violation) {
	if h.setupVio != nil {
		v := *h.setupVio
		v.Step = step
		return Result{}, &v
	}
	h.events = append(h.events, ev)
	debugGasDiff(h.w0, h.w2, ev)
	debugVolatileDiff(h.w0, h.w2)
	res := h.w0.Apply(ev)
	if h.w0.Panicked != "" {
		return res, nil
	}
	h.w1.Apply(cloneEvent(ev))
	h.w2.Apply(cloneEvent(ev))
	h.w0.Stats.OracleEval++
	for _, f := range sortedKeys(h.w2.Stats.Faults) {
		_ = f
	}
	debugC16(h)
	if v := h.compare(h.w1, "second in-process instance", step); v != nil {
		return res, v
	}
	if v := h.compare(h.w2, "crash/restart instance", step); v != nil {
		return res, v
	}
	return res, nil
}

func (h *c16Harness) compare(o *World, what string, step int) *Violation {
	a, b := h.w0.Digests, o.Digests
	n := len(a)
	if len(b) < n {
		n = len(b)
	}
	for i := 0; i < n; i++ {
		if a[i] != b[i] {
			return &Violation{Property: "C16", OracleID: "c16.replica", Signature: "divergence:" + strings.SplitN(a[i], " ", 2)[0], Step: step,
				Detail: fmt.Sprintf("%s diverged at record %d: primary %q vs %q%s", what, i, a[i], b[i], h.firstStoreDiff(o))}
		}
	}
	if len(a) != len(b) {
		return &Violation{Property: "C16", OracleID: "c16.replica", Signature: "divergence:length", Step: step,
			Detail: fmt.Sprintf("%s produced %d outcome records, primary %d", what, len(b), len(a))}
	}
	if len(a) > 0 && strings.HasPrefix(a[len(a)-1], "commit") {
		h.w0.Stats.Probe("c16.block_hashes_compared")
	}
	return nil
}

func (h *c16Harness) firstStoreDiff(o *World) string {
	// deliver-state (in-block) difference first
	if h.w0.InBlock && o.InBlock && h.w0.Panicked == "" && o.Panicked == "" {
		for _, name := range sortedKeys(storeKeys(h.w0)) {
			a, b := storeDump(h.w0, name, false), storeDump(o, name, false)
			i, j := 0, 0
			for i < len(a) || j < len(b) {
				switch {
				case i >= len(a):
					return fmt.Sprintf("; in-block state differs: store %s key %x only on the other instance", name, b[j].k)
				case j >= len(b):
					return fmt.Sprintf("; in-block state differs: store %s key %x only on the primary", name, a[i].k)
				}
				c := bytes.Compare(a[i].k, b[j].k)
				if c < 0 {
					return fmt.Sprintf("; in-block state differs: store %s key %x only on the primary", name, a[i].k)
				}
				if c > 0 {
					return fmt.Sprintf("; in-block state differs: store %s key %x only on the other instance", name, b[j].k)
				}
				if !bytes.Equal(a[i].v, b[j].v) {
					return fmt.Sprintf("; in-block state differs: store %s key %x value differs", name, a[i].k)
				}
				i++
				j++
			}
		}
	}
	d0, d1 := dumpStores(h.w0), dumpStores(o)
	for _, k := range sortedKeys(d0) {
		if d0[k] != d1[k] {
			return fmt.Sprintf("; first differing store (committed state): %s", k)
		}
	}
	return ""
}

func (h *c16Harness) Finish() *Violation {
	// merge crash statistics into the primary's stats
	for k, v := range h.w2.Stats.Faults {
		if strings.HasPrefix(k, "node.crash") {
			h.w0.Stats.Faults[k] += v
		}
	}
	if os.Getenv("VERIF_C16_NOPROC") != "" {
		return nil
	}
	// fresh OS processes
	tmp, err := os.CreateTemp("", "comdexsim-c16-*.json")
	if err != nil {
		return nil
	}
	defer os.Remove(tmp.Name())
	bz, _ := json.Marshal(ReplayFile{Property: "C16", Config: h.cfg, Events: h.events})
	tmp.Write(bz)
	tmp.Close()
	self, _ := os.Executable()
	for _, gmp := range []string{"1", "16"} {
		cmd := exec.Command(self, "replica", tmp.Name())
		cmd.Env = append(os.Environ(), "GOMAXPROCS="+gmp)
		out, err := cmd.Output()
		if err != nil {
			// machinery trouble, not a violation
			fmt.Fprintf(os.Stderr, "c16: replica process failed: %v\n", err)
			h.w0.Stats.Probe("c16.replica_process_failed")
			continue
		}
		var lines []string
		if err := json.Unmarshal(out, &lines); err != nil {
			fmt.Fprintf(os.Stderr, "c16: replica output unreadable: %v\n", err)
			h.w0.Stats.Probe("c16.replica_process_failed")
			continue
		}
		h.w0.Stats.Probe("c16.fresh_process_replica_compared")
		a := h.w0.Digests
		n := len(a)
		if len(lines) < n {
			n = len(lines)
		}
		for i := 0; i < n; i++ {
			if a[i] != lines[i] {
				return &Violation{Property: "C16", OracleID: "c16.replica", Signature: "divergence_fresh_process:" + strings.SplitN(a[i], " ", 2)[0],
					Detail: fmt.Sprintf("fresh process (GOMAXPROCS=%s) diverged at record %d: primary %q vs %q", gmp, i, a[i], lines[i])}
			}
		}
		if len(a) != len(lines) {
			return &Violation{Property: "C16", OracleID: "c16.replica", Signature: "divergence_fresh_process:length",
				Detail: fmt.Sprintf("fresh process (GOMAXPROCS=%s) produced %d records, primary %d", gmp, len(lines), len(a))}
		}
	}
	return nil
}

// cmdReplica: replay a recorded stream on one world and print the digest lines as JSON.
func cmdReplica(path string) int {
	bz, err := os.ReadFile(path)
	if err != nil {
		fmt.Fprintln(os.Stderr, err)
		return 2
	}
	var rf ReplayFile
	if err := json.Unmarshal(bz, &rf); err != nil {
		fmt.Fprintln(os.Stderr, err)
		return 2
	}
	w := buildWorld(rf.Config)
	w.RecordDigests = true
	for _, ev := range rf.Events {
		if w.Panicked != "" {
			break
		}
		w.Apply(ev)
	}
	out, _ := json.Marshal(w.Digests)
	os.Stdout.Write(out)
	return 0
}

// dumpStores returns a hash per committed KV store (name -> digest of the ordered key/value dump).
func dumpStores(w *World) map[string]string {
	out := map[string]string{}
	cms := w.App.CommitMultiStore()
	keys := storeKeys(w)
	for _, name := range sortedKeys(keys) {
		if _, ok := keys[name].(*storetypes.KVStoreKey); !ok {
			continue // transient and memory stores are not part of the replicated state
		}
		st := cms.GetCommitKVStore(keys[name])
		if st == nil {
			continue
		}
		it := st.Iterator(nil, nil)
		var th traceHasher
		for ; it.Valid(); it.Next() {
			th.add(string(it.Key()) + "\x00" + string(it.Value()))
		}
		it.Close()
		out[name] = fmt.Sprintf("%s(%d)", th.hex(), th.n)
	}
	return out
}

// storeKeys enumerates every store mounted on the multistore (so a newly added module store is included automatically).
func storeKeys(w *World) map[string]storetypes.StoreKey {
	type byName interface {
		StoreKeysByName() map[string]storetypes.StoreKey
	}
	if bn, ok := w.App.CommitMultiStore().(byName); ok {
		return bn.StoreKeysByName()
	}
	panic("multistore does not expose StoreKeysByName")
}
