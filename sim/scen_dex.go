package main

import (
	"fmt"
	"sort"
	"time"

	sdk "github.com/cosmos/cosmos-sdk/types"
	banktypes "github.com/cosmos/cosmos-sdk/x/bank/types"

	"github.com/comdex-official/comdex/x/liquidity/amm"
	liqtypes "github.com/comdex-official/comdex/x/liquidity/types"
	rewardstypes "github.com/comdex-official/comdex/x/rewards/types"
)

// DexPlan is set-up data of the liquidity scenario. Pairs / pools are always re-read from chain state by generators and
// oracles (pools can also be created at run time), the plan only keeps what cannot be read back.
type DexPlan struct {
	AppID   uint64   // primary liquidity app (id differs from pair and pool ids)
	AppIDs  []uint64 // every app with liquidity activity
	Assets  []*AssetInfo
	Traded  []*AssetInfo // assets that may be part of a pair
	Reward  *AssetInfo   // never part of a pair: gauge deposits in this denom are the only flow of it
	Users   []int
	T       *dexTracker
	JumpW   int
	Drip    okey // order currently being filled piecewise by genCluster's drip mode (generator state only)
	Dormant map[pkey]bool // (app, pair id) of pairs the generators leave alone (env.dormant_pool)
	GaugeW  int
	MagUnit sdk.Int
}

const dexActors = 11

// drawDexConfig draws the swarm configuration of a dex run.
func drawDexConfig(r *Rng, cfg *Config) {
	k := cfg.Knobs
	k["n_users"] = r.Range(5, 10)
	k["n_assets"] = r.Range(3, 4)
	k["n_pairs"] = r.Range(1, 3)
	k["n_ranged"] = r.Range(0, 2)
	k["filler_apps"] = r.Range(1, 2) // liquidity app id becomes 2 or 3
	k["second_app"] = int64(r.Intn(2))
	k["batch_size"] = r.Range(1, 3)
	k["batch_size_b"] = r.Range(1, 3)
	k["tick_prec"] = r.Range(2, 4)
	k["swap_fee_permille"] = []int64{0, 3, 30}[r.Intn(3)]
	k["withdraw_fee_permille"] = []int64{0, 3, 50}[r.Intn(3)]
	k["max_lifespan_s"] = []int64{20, 120, 3600, 86400}[r.Intn(4)]
	k["price_limit_pct"] = []int64{5, 10, 10, 30}[r.Intn(4)]
	k["min_init_deposit"] = []int64{100, 1000000}[r.Intn(2)]
	k["mag"] = []int64{9, 9, 12, 12, 18, 30}[r.Intn(6)] // funding magnitude class 10^mag
	k["price_class"] = int64(r.Intn(5))                // pool price magnitude
	k["twa_batch"] = []int64{1, 1, 2}[r.Intn(3)]
	k["accepted_diff"] = []int64{20, 40, 100}[r.Intn(3)]
	k["path_mode"] = []int64{pathFlat, pathWalk, pathWalk, pathSaw}[r.Intn(4)]
	k["vol"] = r.Range(1, 12)
	k["pkt_fault"] = 0
	k["oog"] = []int64{0, 0, 20, 60}[r.Intn(4)]
	k["gap_profile"] = []int64{0, 0, 0, 1}[r.Intn(4)]
	k["unsolicited"] = int64(r.Intn(3)) // 0 = never
	k["jump_w"] = []int64{0, 1, 2, 4}[r.Intn(4)]
	k["gauge_w"] = []int64{0, 1, 2}[r.Intn(3)]
	k["n_gauges"] = r.Range(0, 2)
	k["fee_asset_traded"] = int64(r.Intn(2))
	k["whale"] = []int64{0, 0, 0, 1}[r.Intn(4)] // one user holds 10^21 of the reward denom
	k["bare_pairs"] = []int64{0, 0, 1, 1, 2}[r.Intn(5)] // pairs without any pool: pure order book, orders rest and fill piecewise
}

func (w *World) dexParams(app uint64) liqtypes.GenericParams {
	p, _ := w.App.LiquidityKeeper.GetGenericLiquidityParams(w.Ctx(), app)
	return p
}

func mustTx(w *World, a *Actor, what string, msgs ...sdk.Msg) {
	res := w.DeliverMsgs(a, defaultGas, msgs...)
	if !res.OK() {
		panic(fmt.Sprintf("dex set-up: %s failed: %s", what, res.Log))
	}
}

func permille(n int64) sdk.Dec { return sdk.NewDecWithPrec(n, 3) }

// tick helpers (generator side only)
func tickDown(p sdk.Dec, prec int) sdk.Dec { return amm.PriceToDownTick(p, prec) }
func tickUp(p sdk.Dec, prec int) sdk.Dec   { return amm.PriceToUpTick(p, prec) }

func decFrac(n, d int64) sdk.Dec { return sdk.NewDec(n).QuoInt64(d) }

// setupDex builds apps, assets, liquidity params, pairs and pools (through signed txs) and funds the users.
func setupDex(w *World) {
	cfg := &w.Cfg
	r := NewRng(MixSeed(cfg.Seed, "setup", 0))
	p := &DexPlan{JumpW: int(cfg.K("jump_w")), GaugeW: int(cfg.K("gauge_w"))}
	w.Dex = p

	fillers := [][2]string{{"harbor", "hbr"}, {"commodo", "cmdo"}}
	var all []uint64
	for i := 0; i < int(cfg.K("filler_apps")); i++ {
		all = append(all, w.addApp(fillers[i][0], fillers[i][1]))
	}
	p.AppID = w.addApp("cswap", "cswap")
	p.AppIDs = []uint64{p.AppID}
	if cfg.KB("second_app") {
		p.AppIDs = append(p.AppIDs, w.addApp("dexter", "dxt"))
	}

	// assets
	oidx := 0
	mk := func(name, denom string, dec int, oracle bool) *AssetInfo {
		a := &AssetInfo{Name: name, Denom: denom, Decimals: pow10(dec), Oracle: oracle, OIdx: -1}
		a.ID = w.addAsset(name, denom, a.Decimals, oracle, false)
		if oracle {
			a.OIdx = oidx
			oidx++
		}
		p.Assets = append(p.Assets, a)
		return a
	}
	if r.Bool() {
		mk("FILLER", "ufiller", 6, false)
	}
	fee := mk("CMDX", "ucmdx", 6, true)
	names := [][2]string{{"ATOM", "uatom"}, {"OSMO", "uosmo"}, {"CMST", "ucmst"}, {"USDC", "uusdc"}}
	nA := int(cfg.K("n_assets"))
	for i := 0; i < nA; i++ {
		dec := 6
		if r.Chance(1, 5) {
			dec = []int{8, 18}[r.Intn(2)]
		}
		// the first traded asset is always oracle priced (gauges need one priced side)
		a := mk(names[i][0], names[i][1], dec, i == 0 || r.Chance(3, 4))
		p.Traded = append(p.Traded, a)
	}
	if cfg.KB("fee_asset_traded") {
		p.Traded = append(p.Traded, fee)
	}
	p.Reward = mk("REWARD", "ureward", 6, false)

	// liquidity parameters per app
	for i, app := range p.AppIDs {
		gp, err := w.App.LiquidityKeeper.GetGenericParams(w.Ctx(), app)
		if err != nil {
			panic(err)
		}
		gp.BatchSize = uint64(cfg.K("batch_size"))
		if i > 0 {
			gp.BatchSize = uint64(cfg.K("batch_size_b"))
		}
		gp.TickPrecision = uint64(cfg.K("tick_prec"))
		gp.SwapFeeRate = permille(cfg.K("swap_fee_permille"))
		gp.WithdrawFeeRate = permille(cfg.K("withdraw_fee_permille"))
		gp.MaxOrderLifespan = time.Duration(cfg.K("max_lifespan_s")) * time.Second
		gp.MaxPriceLimitRatio = sdk.NewDecWithPrec(cfg.K("price_limit_pct"), 2)
		gp.MinInitialDepositAmount = sdk.NewInt(cfg.K("min_init_deposit"))
		if err := gp.Validate(); err != nil {
			panic(err)
		}
		w.App.LiquidityKeeper.SetGenericParams(w.Ctx(), gp)
	}

	// users
	nUsers := int(cfg.K("n_users"))
	mag := int(cfg.K("mag"))
	p.MagUnit = pow10(mag)
	for i := 0; i < nUsers; i++ {
		p.Users = append(p.Users, i)
		var coins sdk.Coins
		for _, a := range p.Traded {
			if a.Denom == "ucmdx" {
				continue
			}
			coins = coins.Add(sdk.NewCoin(a.Denom, p.MagUnit.MulRaw(r.Range(10, 1000))))
		}
		coins = coins.Add(sdk.NewCoin(p.Reward.Denom, sdk.NewInt(r.Range(1_000_000, 4_000_000_000_000))))
		if i == 0 && cfg.K("whale") != 0 {
			coins = coins.Add(sdk.NewCoin(p.Reward.Denom, pow10(21)))
		}
		coins = coins.Add(sdk.NewCoin("ucmdx", p.MagUnit.MulRaw(r.Range(10, 1000)).AddRaw(100_000_000_000)))
		w.Fund(w.Actors[i].Addr, coins)
	}

	// pairs: all unordered denom sets are distinct world-wide (lets the fill log be attributed to a pair by denoms)
	type combo struct{ a, b *AssetInfo }
	var combos []combo
	for i := 0; i < len(p.Traded); i++ {
		for j := i + 1; j < len(p.Traded); j++ {
			if r.Bool() {
				combos = append(combos, combo{p.Traded[i], p.Traded[j]})
			} else {
				combos = append(combos, combo{p.Traded[j], p.Traded[i]})
			}
		}
	}
	// deterministic shuffle
	for i := len(combos) - 1; i > 0; i-- {
		j := r.Intn(i + 1)
		combos[i], combos[j] = combos[j], combos[i]
	}
	nPairs := int(cfg.K("n_pairs"))
	if nPairs > len(combos) {
		nPairs = len(combos)
	}
	ci := 0
	creator := func() *Actor { return w.Actors[p.Users[r.Intn(len(p.Users))]] }
	type pairRef struct {
		app, id     uint64
		base, quote *AssetInfo
	}
	var pairs []pairRef
	for i := 0; i < nPairs; i++ {
		c := combos[ci]
		ci++
		a := creator()
		mustTx(w, a, "create pair", liqtypes.NewMsgCreatePair(p.AppID, a.Addr, c.a.Denom, c.b.Denom))
		pairs = append(pairs, pairRef{p.AppID, w.App.LiquidityKeeper.GetLastPairID(w.Ctx(), p.AppID), c.a, c.b})
	}
	if len(p.AppIDs) > 1 && ci < len(combos) {
		c := combos[ci]
		ci++
		a := creator()
		app := p.AppIDs[1]
		mustTx(w, a, "create pair (second app)", liqtypes.NewMsgCreatePair(app, a.Addr, c.a.Denom, c.b.Denom))
		pairs = append(pairs, pairRef{app, w.App.LiquidityKeeper.GetLastPairID(w.Ctx(), app), c.a, c.b})
	}

	// pools: created in reverse pair order so that pool ids and pair ids are not aligned
	priceClass := cfg.K("price_class")
	nRanged := int(cfg.K("n_ranged"))
	for i := len(pairs) - 1; i >= 0; i-- {
		pr := pairs[i]
		if bare := cfg.K("bare_pairs"); bare == 3 || (len(pairs) >= 2 && ((bare == 1 && i == 0) || (bare == 2 && i != len(pairs)-1))) {
			w.Stats.Probe("dex.setup_bare_pair")
			continue
		}
		a := creator()
		// reserves: y base units, x = price * y quote units
		y := p.MagUnit.MulRaw(r.Range(1, 50)).QuoRaw(10)
		var price sdk.Dec
		switch priceClass {
		case 0:
			price = decFrac(r.Range(800, 1250), 1000)
		case 1:
			price = decFrac(r.Range(5, 200), 1000)
		case 2:
			price = decFrac(r.Range(5000, 90000), 1000)
		case 3:
			price = decFrac(r.Range(1, 99), 100000)
		default:
			price = decFrac(r.Range(100, 9000), 1)
		}
		x := price.MulInt(y).TruncateInt()
		if x.LT(sdk.NewInt(2_000_000)) {
			x = sdk.NewInt(2_000_000)
		}
		if y.LT(sdk.NewInt(2_000_000)) {
			y = sdk.NewInt(2_000_000)
		}
		w.Fund(a.Addr, sdk.NewCoins(sdk.NewCoin(pr.quote.Denom, x.MulRaw(3)), sdk.NewCoin(pr.base.Denom, y.MulRaw(3))))
		mustTx(w, a, "create pool", liqtypes.NewMsgCreatePool(pr.app, a.Addr, pr.id, sdk.NewCoins(sdk.NewCoin(pr.quote.Denom, x), sdk.NewCoin(pr.base.Denom, y))))
		if nRanged > 0 && pr.app == p.AppID {
			nRanged--
			prec := int(cfg.K("tick_prec"))
			p0 := tickDown(x.ToLegacyDec().Quo(y.ToLegacyDec()), prec)
			minP := tickDown(p0.Mul(decFrac(r.Range(50, 95), 100)), prec)
			maxP := tickDown(p0.Mul(decFrac(r.Range(105, 200), 100)), prec)
			init := p0
			switch r.Intn(6) {
			case 0:
				init = minP
			case 1:
				init = maxP
			}
			b := creator()
			w.Fund(b.Addr, sdk.NewCoins(sdk.NewCoin(pr.quote.Denom, x), sdk.NewCoin(pr.base.Denom, y)))
			res := w.DeliverMsgs(b, defaultGas, liqtypes.NewMsgCreateRangedPool(pr.app, b.Addr, pr.id,
				sdk.NewCoins(sdk.NewCoin(pr.quote.Denom, x.QuoRaw(2)), sdk.NewCoin(pr.base.Denom, y.QuoRaw(2))), minP, maxP, init))
			if res.OK() {
				w.Stats.Probe("dex.setup_ranged_pool")
			}
		}
	}

	// oracle
	w.SetupBand(uint64(cfg.K("twa_batch")), cfg.K("accepted_diff"))
	w.Band.Prices = make([]uint64, oidx)
	for _, a := range p.Assets {
		if a.Oracle {
			w.Band.Prices[a.OIdx] = uint64(r.Range(50000, 50000000))
		}
	}
	w.touchModuleAccounts()
	p.T = newDexTracker(w)
	w.OnBlock = append(w.OnBlock, func(w *World) { w.Dex.T.onBlock(w) })
}

// dexPostWarm creates the initial gauges (needs active oracle prices) and a few farmers.
func dexPostWarm(w *World) {
	cfg := &w.Cfg
	r := NewRng(MixSeed(cfg.Seed, "setup", 1))
	p := w.Dex
	pools := w.dexPools()
	if len(pools) == 0 {
		return
	}
	for i := 0; i < int(cfg.K("n_gauges")); i++ {
		a := w.Actors[p.Users[r.Intn(len(p.Users))]]
		pool := pools[r.Intn(len(pools))]
		ev := w.genGauge(r, a, pool, true)
		if ev == nil {
			continue
		}
		res := w.Apply(ev)
		if res.Tx.OK() {
			w.Stats.Probe("dex.setup_gauge")
		}
	}
}

// ---------- chain-state views used by generators ----------

type dexPool struct {
	liqtypes.Pool
	Pair liqtypes.Pair
}

func (w *World) dexApps() []uint64 {
	apps, _ := w.App.AssetKeeper.GetApps(w.Ctx())
	var out []uint64
	for _, a := range apps {
		out = append(out, a.Id)
	}
	sort.Slice(out, func(i, j int) bool { return out[i] < out[j] })
	return out
}

func (w *World) dexPairs() []liqtypes.Pair {
	var out []liqtypes.Pair
	ctx := w.Ctx()
	for _, app := range w.Dex.AppIDs {
		for _, pr := range w.App.LiquidityKeeper.GetAllPairs(ctx, app) {
			if !w.Dex.Dormant[pkey{app, pr.Id}] {
				out = append(out, pr)
			}
		}
	}
	return out
}

func (w *World) dexPools() []dexPool {
	var out []dexPool
	ctx := w.Ctx()
	for _, app := range w.Dex.AppIDs {
		for _, pl := range w.App.LiquidityKeeper.GetAllPools(ctx, app) {
			pair, _ := w.App.LiquidityKeeper.GetPair(ctx, app, pl.PairId)
			if w.Dex.Dormant[pkey{app, pl.PairId}] {
				continue
			}
			out = append(out, dexPool{pl, pair})
		}
	}
	return out
}

func (w *World) dexUser(r *Rng) *Actor { return w.Actors[w.Dex.Users[r.Intn(len(w.Dex.Users))]] }

// dexRefPrice is the price around which orders are generated.
func (w *World) dexRefPrice(pair liqtypes.Pair) sdk.Dec {
	if pair.LastPrice != nil {
		return *pair.LastPrice
	}
	ctx := w.Ctx()
	for _, pl := range w.App.LiquidityKeeper.GetPoolsByPair(ctx, pair.AppId, pair.Id) {
		if pl.Disabled {
			continue
		}
		rx := w.Bal(pl.GetReserveAddress(), pair.QuoteCoinDenom)
		ry := w.Bal(pl.GetReserveAddress(), pair.BaseCoinDenom)
		if rx.IsPositive() && ry.IsPositive() {
			return rx.ToLegacyDec().Quo(ry.ToLegacyDec())
		}
	}
	return sdk.OneDec()
}

func logAmt(r *Rng, lo, hi sdk.Int) sdk.Int {
	if hi.LTE(lo) {
		return lo
	}
	// log-uniform via bit length
	lb, hb := lo.BigInt().BitLen(), hi.BigInt().BitLen()
	bits := int(r.Range(int64(lb), int64(hb)))
	v := sdk.NewIntFromBigInt(r.BigBelow(pow2(bits)))
	if v.LT(lo) {
		v = lo
	}
	if v.GT(hi) {
		v = hi
	}
	return v
}

func pow2(n int) *bigInt { return new(bigInt).Lsh(bigOne, uint(n)) }

func (w *World) dexLifespan(r *Rng, gp liqtypes.GenericParams) time.Duration {
	max := gp.MaxOrderLifespan
	switch r.Intn(9) {
	case 0:
		return 0
	case 1:
		return max
	case 2:
		return max + time.Second // rejected
	case 3, 4:
		return time.Duration(r.Range(1, 15)) * time.Second
	default:
		d := time.Duration(r.Range(5, 600)) * time.Second
		if d > max {
			d = max
		}
		return d
	}
}

// feeOn returns a generous upper estimate of the swap-fee reserve for offer (generator side only).
func feeOn(offer sdk.Int, gp liqtypes.GenericParams) sdk.Int {
	return gp.SwapFeeRate.MulInt(offer).Ceil().TruncateInt()
}

func (w *World) genLimit(r *Rng) *Event {
	pairs := w.dexPairs()
	if len(pairs) == 0 {
		return nil
	}
	pair := pairs[r.Intn(len(pairs))]
	a := w.dexUser(r)
	gp := w.dexParams(pair.AppId)
	prec := int(gp.TickPrecision)
	ref := w.dexRefPrice(pair)
	buy := r.Bool()
	var price sdk.Dec
	mode := r.Intn(12)
	lo, hi := liqtypes.PriceLimits(ref, gp.MaxPriceLimitRatio, prec)
	switch mode {
	case 0: // exactly at a price limit
		if buy == r.Chance(3, 4) {
			price = hi
		} else {
			price = lo
		}
		w.Stats.Probe("dex.gen.price_at_limit")
	case 1: // beyond the limits (rejected once a last price exists)
		if r.Bool() {
			price = hi.Mul(decFrac(r.Range(101, 150), 100))
		} else {
			price = lo.Mul(decFrac(r.Range(60, 99), 100))
		}
	case 2, 3, 4: // off tick, many digits
		price = ref.Mul(decFrac(r.Range(9700000, 10300000), 10000000))
		w.Stats.Probe("dex.gen.price_off_tick")
	default:
		if buy {
			price = tickDown(ref.Mul(decFrac(r.Range(960, 1050), 1000)), prec)
		} else {
			price = tickUp(ref.Mul(decFrac(r.Range(950, 1040), 1000)), prec)
		}
	}
	if !price.IsPositive() {
		return nil
	}
	offerDenom, demandDenom := pair.QuoteCoinDenom, pair.BaseCoinDenom
	dir := liqtypes.OrderDirectionBuy
	if !buy {
		offerDenom, demandDenom = pair.BaseCoinDenom, pair.QuoteCoinDenom
		dir = liqtypes.OrderDirectionSell
	}
	bal := w.Bal(a.Addr, offerDenom)
	if bal.LT(sdk.NewInt(1000)) {
		return nil
	}
	// amount in base units
	maxBase := bal.QuoRaw(3)
	if buy {
		maxBase = bal.ToLegacyDec().QuoInt64(3).Quo(price).TruncateInt()
	}
	if maxBase.LT(sdk.NewInt(200)) {
		return nil
	}
	amt := logAmt(r, sdk.NewInt(100), maxBase)
	if r.Chance(1, 12) {
		amt = sdk.NewInt(r.Range(100, 130)) // tiny orders: "too small" sweep, zero-quote sells
	}
	need := amm.OfferCoinAmount(amm.Buy, price, amt)
	if !buy {
		need = amt
	}
	offer := need.Add(feeOn(need, gp)).AddRaw(1)
	switch r.Intn(8) {
	case 0:
		offer = offer.AddRaw(r.Range(1, 100000)) // surplus is simply not taken
	case 1:
		offer = need // no room for the fee reserve: rejected when the fee rate is positive
	}
	if offer.GT(bal) {
		return nil
	}
	msg := liqtypes.NewMsgLimitOrder(pair.AppId, a.Addr, pair.Id, dir, sdk.NewCoin(offerDenom, offer), demandDenom, price, amt, w.dexLifespan(r, gp))
	return w.TxEvent("order.limit", a, msg)
}

func (w *World) genMarket(r *Rng) *Event {
	pairs := w.dexPairs()
	var c []liqtypes.Pair
	for _, p := range pairs {
		if p.LastPrice != nil {
			c = append(c, p)
		}
	}
	if len(c) == 0 {
		if len(pairs) == 0 || !r.Chance(1, 6) {
			return nil
		}
		c = pairs // rejected: no last price
	}
	pair := c[r.Intn(len(c))]
	a := w.dexUser(r)
	gp := w.dexParams(pair.AppId)
	ref := w.dexRefPrice(pair)
	buy := r.Bool()
	offerDenom, demandDenom := pair.QuoteCoinDenom, pair.BaseCoinDenom
	dir := liqtypes.OrderDirectionBuy
	if !buy {
		offerDenom, demandDenom = pair.BaseCoinDenom, pair.QuoteCoinDenom
		dir = liqtypes.OrderDirectionSell
	}
	bal := w.Bal(a.Addr, offerDenom)
	maxP := ref.Mul(sdk.OneDec().Add(gp.MaxPriceLimitRatio))
	maxBase := bal.QuoRaw(4)
	if buy {
		maxBase = bal.ToLegacyDec().QuoInt64(4).Quo(maxP).TruncateInt()
	}
	if maxBase.LT(sdk.NewInt(200)) {
		return nil
	}
	amt := logAmt(r, sdk.NewInt(100), maxBase)
	need := amt
	if buy {
		need = amm.OfferCoinAmount(amm.Buy, maxP, amt)
	}
	offer := need.Add(feeOn(need, gp)).AddRaw(1)
	if offer.GT(bal) {
		return nil
	}
	msg := liqtypes.NewMsgMarketOrder(pair.AppId, a.Addr, pair.Id, dir, sdk.NewCoin(offerDenom, offer), demandDenom, amt, w.dexLifespan(r, gp))
	return w.TxEvent("order.market", a, msg)
}

func (w *World) genMM(r *Rng) *Event {
	pairs := w.dexPairs()
	if len(pairs) == 0 {
		return nil
	}
	pair := pairs[r.Intn(len(pairs))]
	a := w.dexUser(r)
	gp := w.dexParams(pair.AppId)
	prec := int(gp.TickPrecision)
	ref := w.dexRefPrice(pair)
	lo, hi := liqtypes.PriceLimits(ref, gp.MaxPriceLimitRatio, prec)
	clamp := func(p sdk.Dec) sdk.Dec {
		if p.LT(lo) {
			return lo
		}
		if p.GT(hi) {
			return hi
		}
		return p
	}
	minSell := clamp(tickUp(ref.Mul(decFrac(r.Range(995, 1030), 1000)), prec))
	maxSell := clamp(tickUp(minSell.Mul(decFrac(r.Range(1000, 1080), 1000)), prec))
	maxBuy := clamp(tickDown(ref.Mul(decFrac(r.Range(970, 1005), 1000)), prec))
	minBuy := clamp(tickDown(maxBuy.Mul(decFrac(r.Range(920, 1000), 1000)), prec))
	if minBuy.GT(maxBuy) || minSell.GT(maxSell) {
		return nil
	}
	balB := w.Bal(a.Addr, pair.BaseCoinDenom)
	balQ := w.Bal(a.Addr, pair.QuoteCoinDenom)
	sellAmt, buyAmt := sdk.ZeroInt(), sdk.ZeroInt()
	if r.Chance(4, 5) && balB.GT(sdk.NewInt(100000)) {
		sellAmt = logAmt(r, sdk.NewInt(2000), balB.QuoRaw(5))
	}
	maxBuyBase := balQ.ToLegacyDec().QuoInt64(5).Quo(maxBuy).TruncateInt()
	if r.Chance(4, 5) && maxBuyBase.GT(sdk.NewInt(4000)) {
		buyAmt = logAmt(r, sdk.NewInt(2000), maxBuyBase)
	}
	if sellAmt.IsZero() && buyAmt.IsZero() {
		return nil
	}
	if r.Chance(1, 10) {
		maxSell = maxSell.Mul(decFrac(1000037, 1000000)) // off tick: rejected
	}
	msg := liqtypes.NewMsgMMOrder(pair.AppId, a.Addr, pair.Id, maxSell, minSell, sellAmt, maxBuy, minBuy, buyAmt, w.dexLifespan(r, gp))
	return w.TxEvent("order.mm", a, msg)
}

func liveStatus(s liqtypes.OrderStatus) bool {
	return s == liqtypes.OrderStatusNotExecuted || s == liqtypes.OrderStatusNotMatched || s == liqtypes.OrderStatusPartiallyMatched
}

func (w *World) genCancel(r *Rng) *Event {
	ctx := w.Ctx()
	// try a few users for one with a live order
	for try := 0; try < 4; try++ {
		a := w.dexUser(r)
		var live []liqtypes.Order
		for _, app := range w.Dex.AppIDs {
			for _, o := range w.App.LiquidityKeeper.GetOrdersByOrderer(ctx, app, a.Addr) {
				if liveStatus(o.Status) {
					live = append(live, o)
				}
			}
		}
		if len(live) == 0 {
			continue
		}
		// prefer orders from earlier batches (cancellable); sometimes a same-batch one (rejected)
		var old []liqtypes.Order
		for _, o := range live {
			pair, _ := w.App.LiquidityKeeper.GetPair(ctx, o.AppId, o.PairId)
			if o.BatchId < pair.CurrentBatchId {
				old = append(old, o)
			}
		}
		pick := live
		if len(old) > 0 && r.Chance(7, 8) {
			pick = old
		} else if len(old) == 0 && !r.Chance(1, 5) {
			continue
		}
		o := pick[r.Intn(len(pick))]
		signer := a
		if r.Chance(1, 15) {
			signer = w.dexUser(r) // possibly someone else's order: unauthorized
		}
		return w.TxEvent("order.cancel", signer, liqtypes.NewMsgCancelOrder(o.AppId, signer.Addr, o.PairId, o.Id))
	}
	return nil
}

func (w *World) genCancelAll(r *Rng) *Event {
	a := w.dexUser(r)
	app := w.Dex.AppIDs[r.Intn(len(w.Dex.AppIDs))]
	var ids []uint64
	pairs := w.App.LiquidityKeeper.GetAllPairs(w.Ctx(), app)
	switch r.Intn(4) {
	case 0:
	case 1:
		if len(pairs) > 0 {
			ids = []uint64{pairs[r.Intn(len(pairs))].Id}
		}
	case 2:
		for _, p := range pairs {
			ids = append(ids, p.Id)
		}
	default:
		if r.Chance(1, 3) {
			ids = []uint64{99}
		}
	}
	return w.TxEvent("order.cancel_all", a, liqtypes.NewMsgCancelAllOrders(app, a.Addr, ids))
}

func (w *World) genCancelMM(r *Rng) *Event {
	ctx := w.Ctx()
	pairs := w.dexPairs()
	if len(pairs) == 0 {
		return nil
	}
	for try := 0; try < 6; try++ {
		a := w.dexUser(r)
		pair := pairs[r.Intn(len(pairs))]
		if _, found := w.App.LiquidityKeeper.GetMMOrderIndex(ctx, a.Addr, pair.AppId, pair.Id); found {
			return w.TxEvent("order.cancel_mm", a, liqtypes.NewMsgCancelMMOrder(pair.AppId, a.Addr, pair.Id))
		}
	}
	if r.Chance(1, 5) {
		a := w.dexUser(r)
		pair := pairs[r.Intn(len(pairs))]
		return w.TxEvent("order.cancel_mm", a, liqtypes.NewMsgCancelMMOrder(pair.AppId, a.Addr, pair.Id))
	}
	return nil
}

func (w *World) pickPool(r *Rng, enabledOnly bool) (dexPool, bool) {
	pools := w.dexPools()
	var c []dexPool
	for _, p := range pools {
		if !enabledOnly || !p.Disabled {
			c = append(c, p)
		}
	}
	if len(c) == 0 {
		return dexPool{}, false
	}
	return c[r.Intn(len(c))], true
}

func (w *World) depositCoins(r *Rng, a *Actor, pool dexPool) sdk.Coins {
	res := pool.GetReserveAddress()
	rx := w.Bal(res, pool.Pair.QuoteCoinDenom)
	ry := w.Bal(res, pool.Pair.BaseCoinDenom)
	bx := w.Bal(a.Addr, pool.Pair.QuoteCoinDenom)
	by := w.Bal(a.Addr, pool.Pair.BaseCoinDenom)
	// fraction of the reserves, log-uniform 1e-5 .. 0.5
	f := int64(pow(10, 1+r.Float()*4.7)) // 10 .. 500000  (per million)
	x := rx.MulRaw(f).QuoRaw(1_000_000)
	y := ry.MulRaw(f).QuoRaw(1_000_000)
	switch r.Intn(8) {
	case 0: // skewed
		x = x.MulRaw(r.Range(50, 300)).QuoRaw(100)
	case 1:
		y = y.MulRaw(r.Range(50, 300)).QuoRaw(100)
	case 2: // dust-sized
		x, y = sdk.NewInt(r.Range(1, 50)), sdk.NewInt(r.Range(1, 50))
	case 3: // one coin only
		if r.Bool() {
			x = sdk.ZeroInt()
		} else {
			y = sdk.ZeroInt()
		}
	case 4:
		x = x.AddRaw(r.Range(-3, 3))
		y = y.AddRaw(r.Range(-3, 3))
	}
	if x.GT(bx.QuoRaw(2)) {
		x = bx.QuoRaw(2)
	}
	if y.GT(by.QuoRaw(2)) {
		y = by.QuoRaw(2)
	}
	var coins sdk.Coins
	if x.IsPositive() {
		coins = coins.Add(sdk.NewCoin(pool.Pair.QuoteCoinDenom, x))
	}
	if y.IsPositive() {
		coins = coins.Add(sdk.NewCoin(pool.Pair.BaseCoinDenom, y))
	}
	return coins
}

func (w *World) genDeposit(r *Rng, farm bool) *Event {
	pool, ok := w.pickPool(r, !r.Chance(1, 10))
	if !ok {
		return nil
	}
	a := w.dexUser(r)
	coins := w.depositCoins(r, a, pool)
	if coins.Empty() {
		return nil
	}
	if farm {
		return w.TxEvent("lp.deposit_farm", a, liqtypes.NewMsgDepositAndFarm(pool.AppId, a.Addr, pool.Id, coins))
	}
	return w.TxEvent("lp.deposit", a, liqtypes.NewMsgDeposit(pool.AppId, a.Addr, pool.Id, coins))
}

// holders of a pool coin among the users, with their liquid balance.
func (w *World) poolHolders(pool dexPool) (out []*Actor) {
	for _, i := range w.Dex.Users {
		if w.Bal(w.Actors[i].Addr, pool.PoolCoinDenom).IsPositive() {
			out = append(out, w.Actors[i])
		}
	}
	return
}

func (w *World) genWithdraw(r *Rng) *Event {
	for try := 0; try < 4; try++ {
		pool, ok := w.pickPool(r, !r.Chance(1, 10))
		if !ok {
			return nil
		}
		hs := w.poolHolders(pool)
		if len(hs) == 0 {
			continue
		}
		a := hs[r.Intn(len(hs))]
		bal := w.Bal(a.Addr, pool.PoolCoinDenom)
		amt := bal
		switch r.Intn(5) {
		case 0, 1: // everything (so that "last LP leaves" happens)
		case 2:
			amt = sdk.NewInt(r.Range(1, 1000))
		default:
			amt = bal.MulRaw(r.Range(1, 99)).QuoRaw(100)
		}
		if amt.GT(bal) {
			amt = bal
		}
		if !amt.IsPositive() {
			continue
		}
		return w.TxEvent("lp.withdraw", a, liqtypes.NewMsgWithdraw(pool.AppId, a.Addr, pool.Id, sdk.NewCoin(pool.PoolCoinDenom, amt)))
	}
	return nil
}

func (w *World) genFarm(r *Rng) *Event {
	for try := 0; try < 4; try++ {
		pool, ok := w.pickPool(r, false)
		if !ok {
			return nil
		}
		hs := w.poolHolders(pool)
		if len(hs) == 0 {
			continue
		}
		a := hs[r.Intn(len(hs))]
		bal := w.Bal(a.Addr, pool.PoolCoinDenom)
		amt := bal.MulRaw(r.Range(1, 100)).QuoRaw(100)
		if r.Chance(1, 8) {
			amt = sdk.NewInt(r.Range(1, 100))
		}
		if amt.GT(bal) || !amt.IsPositive() {
			amt = bal
		}
		return w.TxEvent("farm.farm", a, liqtypes.NewMsgFarm(pool.AppId, pool.Id, a.Addr, sdk.NewCoin(pool.PoolCoinDenom, amt)))
	}
	return nil
}

func (w *World) farmedTotal(pool dexPool, a *Actor) sdk.Int {
	ctx := w.Ctx()
	tot := sdk.ZeroInt()
	if af, ok := w.App.LiquidityKeeper.GetActiveFarmer(ctx, pool.AppId, pool.Id, a.Addr); ok {
		tot = tot.Add(af.FarmedPoolCoin.Amount)
	}
	if qf, ok := w.App.LiquidityKeeper.GetQueuedFarmer(ctx, pool.AppId, pool.Id, a.Addr); ok {
		for _, q := range qf.QueudCoins {
			tot = tot.Add(q.FarmedPoolCoin.Amount)
		}
	}
	return tot
}

func (w *World) genUnfarm(r *Rng, withdraw bool) *Event {
	pools := w.dexPools()
	if len(pools) == 0 {
		return nil
	}
	for try := 0; try < 8; try++ {
		pool := pools[r.Intn(len(pools))]
		a := w.dexUser(r)
		tot := w.farmedTotal(pool, a)
		if !tot.IsPositive() {
			continue
		}
		amt := tot
		switch r.Intn(6) {
		case 0, 1:
		case 2:
			amt = tot.AddRaw(r.Range(1, 10)) // more than farmed: rejected
		case 3:
			amt = sdk.NewInt(r.Range(1, 100))
			if amt.GT(tot) {
				amt = tot
			}
		default:
			amt = tot.MulRaw(r.Range(1, 99)).QuoRaw(100)
			if !amt.IsPositive() {
				amt = tot
			}
		}
		c := sdk.NewCoin(pool.PoolCoinDenom, amt)
		if withdraw {
			return w.TxEvent("farm.unfarm_withdraw", a, liqtypes.NewMsgUnfarmAndWithdraw(pool.AppId, pool.Id, a.Addr, c))
		}
		return w.TxEvent("farm.unfarm", a, liqtypes.NewMsgUnfarm(pool.AppId, pool.Id, a.Addr, c))
	}
	return nil
}

func (w *World) genPoolCreate(r *Rng) *Event {
	pairs := w.dexPairs()
	if len(pairs) == 0 {
		return nil
	}
	pair := pairs[r.Intn(len(pairs))]
	a := w.dexUser(r)
	gp := w.dexParams(pair.AppId)
	prec := int(gp.TickPrecision)
	ref := w.dexRefPrice(pair)
	by := w.Bal(a.Addr, pair.BaseCoinDenom)
	bx := w.Bal(a.Addr, pair.QuoteCoinDenom)
	y := by.QuoRaw(r.Range(5, 50))
	x := ref.MulInt(y).TruncateInt()
	if x.GT(bx.QuoRaw(3)) {
		x = bx.QuoRaw(3)
		y = x.ToLegacyDec().Quo(ref).TruncateInt()
	}
	if !x.IsPositive() || !y.IsPositive() {
		return nil
	}
	coins := sdk.NewCoins(sdk.NewCoin(pair.QuoteCoinDenom, x), sdk.NewCoin(pair.BaseCoinDenom, y))
	hasBasic := false
	for _, pl := range w.App.LiquidityKeeper.GetPoolsByPair(w.Ctx(), pair.AppId, pair.Id) {
		if pl.Type == liqtypes.PoolTypeBasic && !pl.Disabled {
			hasBasic = true
		}
	}
	if !hasBasic && r.Chance(2, 3) {
		return w.TxEvent("pool.create", a, liqtypes.NewMsgCreatePool(pair.AppId, a.Addr, pair.Id, coins))
	}
	p0 := tickDown(ref, prec)
	minP := tickDown(p0.Mul(decFrac(r.Range(40, 97), 100)), prec)
	maxP := tickDown(p0.Mul(decFrac(r.Range(103, 250), 100)), prec)
	init := p0
	switch r.Intn(6) {
	case 0:
		init = minP
	case 1:
		init = maxP
	case 2:
		init = tickDown(minP.Add(maxP).QuoInt64(2), prec)
	}
	if r.Intn(3) == 0 && init.GT(minP) && init.LT(maxP) {
		// what a front-end submits: exactly the base amount the module itself asks for the offered quote amount
		var need sdk.Int
		if msg := catch(func() {
			if pl, err := amm.CreateRangedPool(x, by, minP, maxP, init); err == nil {
				_, need = pl.Balances()
			}
		}); msg == "" && !need.IsNil() && need.IsPositive() && need.LTE(by) {
			coins = sdk.NewCoins(sdk.NewCoin(pair.QuoteCoinDenom, x), sdk.NewCoin(pair.BaseCoinDenom, need))
			w.Stats.Probe("dex.gen.ranged_exact_base_amount")
		}
	}
	return w.TxEvent("pool.create_ranged", a, liqtypes.NewMsgCreateRangedPool(pair.AppId, a.Addr, pair.Id, coins, minP, maxP, init))
}

func (w *World) genGauge(r *Rng, a *Actor, pool dexPool, valid bool) *Event {
	denom := w.Dex.Reward.Denom
	bal := w.Bal(a.Addr, denom)
	if bal.LT(sdk.NewInt(100000)) {
		return nil
	}
	e := []uint64{1, 1, 2, 3, 5, 7, 11, 20}[r.Intn(8)]
	var d int64
	switch r.Intn(6) {
	case 0:
		d = int64(e) // one unit per epoch
	case 1:
		d = int64(e)*r.Range(1, 1000) + r.Range(1, int64(e)) // remainder (may be 0 mod e when e == 1)
	case 2:
		d = r.Range(1, 1_000_000)*int64(e) + int64(e) - 1
	default:
		d = r.Range(1000, 2_000_000_000)
	}
	dur := []time.Duration{12 * time.Hour, 12 * time.Hour, 13 * time.Hour, 24 * time.Hour}[r.Intn(4)]
	start := w.Hdr.Time.Add(time.Duration(r.Range(0, 7200)) * time.Second)
	if !valid {
		switch r.Intn(4) {
		case 0:
			d = int64(e) - 1 // deposit smaller than the number of epochs
			if d < 1 {
				d, e = 1, 2
			}
		case 1:
			dur = 11 * time.Hour
		case 2:
			start = w.Hdr.Time.Add(-time.Hour)
		default:
			start = w.Hdr.Time.Add(30 * time.Hour)
		}
	}
	amt := sdk.NewInt(d)
	if valid && bal.GT(pow10(20)) && r.Chance(1, 2) {
		// a whale's gauge: the deposit does not fit into 64 bits (the per-epoch split works on uint64)
		amt = sdk.NewIntFromUint64(^uint64(0)).AddRaw(r.Range(1, 1_000_000))
		w.Stats.Probe("dex.gen.gauge_deposit_above_uint64")
	}
	if amt.GT(bal) {
		return nil
	}
	msg := rewardstypes.NewMsgCreateGauge(pool.AppId, a.Addr, start, rewardstypes.LiquidityGaugeTypeID, dur, sdk.NewCoin(denom, amt), e)
	master := r.Chance(1, 6)
	msg.Kind = &rewardstypes.MsgCreateGauge_LiquidityMetaData{LiquidityMetaData: &rewardstypes.LiquidtyGaugeMetaData{PoolId: pool.Id, IsMasterPool: master, ChildPoolIds: []uint64{}}}
	return w.TxEvent("gauge.create", a, msg)
}

func dexGens(w *World) []OpGen {
	jumpW, gaugeW := 0, 0
	if w.Dex != nil {
		jumpW, gaugeW = w.Dex.JumpW, w.Dex.GaugeW
	}
	ob, lb, fb := 1+int(w.Cfg.K("order_boost")), 1+int(w.Cfg.K("lp_boost")), 1+int(w.Cfg.K("farm_boost"))
	return []OpGen{
		{"order.limit", 30 * ob, func(w *World, r *Rng) *Event { return w.genLimit(r) }},
		{"order.market", 8 * ob, func(w *World, r *Rng) *Event { return w.genMarket(r) }},
		{"order.cluster", 8 * ob, func(w *World, r *Rng) *Event { return w.genCluster(r) }},
		{"order.burst", 3 * ob * (1 + int(w.Cfg.K("burst_boost"))), func(w *World, r *Rng) *Event { return w.genBurst(r) }},
		{"order.ladder", 3 * ob * (1 + int(w.Cfg.K("ladder_boost"))), func(w *World, r *Rng) *Event { return w.genLadder(r) }},
		{"order.mm", 7 * ob, func(w *World, r *Rng) *Event { return w.genMM(r) }},
		{"order.cancel", 8 * ob, func(w *World, r *Rng) *Event { return w.genCancel(r) }},
		{"order.cancel_all", 2 * ob, func(w *World, r *Rng) *Event { return w.genCancelAll(r) }},
		{"order.cancel_mm", 4 * ob, func(w *World, r *Rng) *Event { return w.genCancelMM(r) }},
		{"lp.deposit", 9 * lb, func(w *World, r *Rng) *Event { return w.genDeposit(r, false) }},
		{"lp.withdraw", 7 * lb, func(w *World, r *Rng) *Event { return w.genWithdraw(r) }},
		{"lp.deposit_farm", 4 * lb, func(w *World, r *Rng) *Event { return w.genDeposit(r, true) }},
		{"farm.farm", 6 * fb, func(w *World, r *Rng) *Event { return w.genFarm(r) }},
		{"farm.unfarm", 4 * fb, func(w *World, r *Rng) *Event { return w.genUnfarm(r, false) }},
		{"farm.unfarm_withdraw", 4 * lb, func(w *World, r *Rng) *Event { return w.genUnfarm(r, true) }},
		{"pool.create", 1, func(w *World, r *Rng) *Event { return w.genPoolCreate(r) }},
		{"farm.spread", 2 * fb * gaugeW, func(w *World, r *Rng) *Event { return w.genFarmSpread(r) }},
		{"gauge.create", gaugeW, func(w *World, r *Rng) *Event {
			pool, ok := w.pickPool(r, true)
			if !ok {
				return nil
			}
			return w.genGauge(r, w.dexUser(r), pool, !r.Chance(1, 6))
		}},
		{"env.timejump", jumpW, func(w *World, r *Rng) *Event {
			gap := r.Range(12*3600, 30*3600)
			if r.Chance(1, 6) {
				gap = r.Range(30*3600, 80*3600) // skips more than one epoch duration
			}
			return &Event{Kind: "block", Tag: "env.timejump", GapS: gap, N: 1, Fault: "clock.gap"}
		}},
		{"env.unsolicited", 1, func(w *World, r *Rng) *Event {
			if w.Cfg.K("unsolicited") == 0 {
				return nil
			}
			a := w.dexUser(r)
			var to sdk.AccAddress
			var denoms []string
			pools := w.dexPools()
			pairs := w.dexPairs()
			switch r.Intn(6) {
			case 5:
				// the pair's swap-fee collector: its coins are converted by the block hook every 150 blocks
				if len(pairs) == 0 {
					return nil
				}
				pr := pairs[r.Intn(len(pairs))]
				to = pr.GetSwapFeeCollectorAddress()
				denoms = []string{pr.BaseCoinDenom, pr.QuoteCoinDenom}
			case 0:
				to = liqtypes.GlobalEscrowAddress
			case 1:
				if len(pairs) == 0 {
					return nil
				}
				pr := pairs[r.Intn(len(pairs))]
				to = pr.GetEscrowAddress()
				denoms = []string{pr.BaseCoinDenom, pr.QuoteCoinDenom}
			case 2:
				if len(pools) == 0 {
					return nil
				}
				pl := pools[r.Intn(len(pools))]
				to = pl.GetReserveAddress()
				denoms = []string{pl.Pair.BaseCoinDenom, pl.Pair.QuoteCoinDenom}
			case 3:
				to = w.ModAddr(liqtypes.ModuleName)
				for _, pl := range pools {
					denoms = append(denoms, pl.PoolCoinDenom)
				}
			default:
				to = w.ModAddr(rewardstypes.ModuleName)
				denoms = []string{w.Dex.Reward.Denom, "ucmdx"}
			}
			if len(denoms) == 0 {
				for _, as := range w.Dex.Traded {
					denoms = append(denoms, as.Denom)
				}
				for _, pl := range pools {
					denoms = append(denoms, pl.PoolCoinDenom)
				}
			}
			d := denoms[r.Intn(len(denoms))]
			bal := w.Bal(a.Addr, d)
			if !bal.IsPositive() {
				return nil
			}
			amt := sdk.NewInt(r.Range(1, 100000))
			if amt.GT(bal) {
				amt = bal
			}
			ev := w.TxEvent("env.unsolicited", a, banktypes.NewMsgSend(a.Addr, to, sdk.NewCoins(sdk.NewCoin(d, amt))))
			ev.Fault = "env.unsolicited"
			return ev
		}},
	}
}

func init() {
	scenarios["dex"] = &Scenario{
		Name: "dex", NActors: dexActors, Draw: drawDexConfig,
		Setup:  func(w *World) { setupDex(w); w.warmOracle(); dexPostWarm(w) },
		Gens:   dexGens,
		PBlock: 230,
	}
}

// genCluster builds the order-book shapes the pro-rata distribution is sensitive to: several orders at exactly the same
// tick on one side, among them "dust" remainders (open amount of a few units left over from an almost complete fill),
// met by an opposing order that fills the tick only partially.
func (w *World) genCluster(r *Rng) *Event {
	ctx := w.Ctx()
	pairs := w.dexPairs()
	if len(pairs) == 0 {
		return nil
	}
	pair := pairs[r.Intn(len(pairs))]
	var live []liqtypes.Order
	for _, o := range w.App.LiquidityKeeper.GetOrdersByPair(ctx, pair.AppId, pair.Id) {
		if liveStatus(o.Status) && o.Type == liqtypes.OrderTypeLimit && o.OpenAmount.GTE(sdk.NewInt(2)) {
			live = append(live, o)
		}
	}
	if len(live) == 0 {
		return nil
	}
	o := live[r.Intn(len(live))]
	drip := false
	if w.Dex.Drip.id != 0 && r.Intn(3) != 0 {
		for _, x := range live {
			if x.Id == w.Dex.Drip.id && pair.AppId == w.Dex.Drip.app && pair.Id == w.Dex.Drip.pair {
				o, drip = x, true
			}
		}
		if !drip {
			if _, ok := w.App.LiquidityKeeper.GetOrder(ctx, w.Dex.Drip.app, w.Dex.Drip.pair, w.Dex.Drip.id); !ok {
				w.Dex.Drip = okey{}
			}
		}
	}
	a := w.dexUser(r)
	gp := w.dexParams(pair.AppId)
	sameSide := !drip && r.Intn(3) == 0
	dir := o.Direction
	if !sameSide {
		if dir == liqtypes.OrderDirectionBuy {
			dir = liqtypes.OrderDirectionSell
		} else {
			dir = liqtypes.OrderDirectionBuy
		}
	}
	var amt sdk.Int
	switch {
	case sameSide: // another order at exactly this tick
		amt = logAmt(r, sdk.NewInt(100), o.OpenAmount.MulRaw(2).AddRaw(100))
	case drip || r.Intn(3) == 0: // drip: fill o in many small pieces over several batches (every piece rounds on its own)
		amt = o.OpenAmount.QuoRaw(r.Range(3, 40)).AddRaw(r.Range(0, 7))
		if o.OpenAmount.LT(o.Amount) && r.Intn(3) == 0 {
			amt = o.OpenAmount.AddRaw(r.Range(0, 5)) // the completing piece, after several partial ones
		}
		if amt.LT(sdk.NewInt(100)) {
			amt = sdk.NewInt(r.Range(100, 130))
		}
		w.Dex.Drip = okey{pair.AppId, pair.Id, o.Id}
		w.Stats.Probe("dex.gen.drip")
	case r.Bool(): // leave a dust remainder of 1..3 units on o
		amt = o.OpenAmount.SubRaw(r.Range(1, 3))
	default: // everything at this tick plus a little less than the rest: partial fill of the tick
		tot := sdk.ZeroInt()
		for _, x := range live {
			if x.Direction == o.Direction && x.Price.Equal(o.Price) {
				tot = tot.Add(x.OpenAmount)
			}
		}
		amt = tot.SubRaw(r.Range(1, 5))
	}
	if amt.LT(sdk.NewInt(100)) {
		return nil
	}
	buy := dir == liqtypes.OrderDirectionBuy
	offerDenom, demandDenom := pair.QuoteCoinDenom, pair.BaseCoinDenom
	if !buy {
		offerDenom, demandDenom = pair.BaseCoinDenom, pair.QuoteCoinDenom
	}
	need := amm.OfferCoinAmount(amm.Buy, o.Price, amt)
	if !buy {
		need = amt
	}
	offer := need.Add(feeOn(need, gp)).AddRaw(1)
	if offer.GT(w.Bal(a.Addr, offerDenom)) {
		return nil
	}
	w.Stats.Probe("dex.gen.cluster")
	msg := liqtypes.NewMsgLimitOrder(pair.AppId, a.Addr, pair.Id, dir, sdk.NewCoin(offerDenom, offer), demandDenom, o.Price, amt, w.dexLifespan(r, gp))
	return w.TxEvent("order.limit", a, msg)
}

// genLadder scripts the life of one long-lived order that is filled piece by piece over several batches by small
// opposing orders at (or a few ticks inside) its own limit price, ending with a piece that completes it: every piece
// rounds on its own, so the order's remaining offer coin, not its open amount, is what must bound the last fill.
// Returns the resting order's placement; the pieces and the block boundaries between them follow as queued events.
func (w *World) genLadder(r *Rng) *Event {
	pairs := w.dexPairs()
	if len(pairs) == 0 {
		return nil
	}
	// prefer a pair without pools (orders rest instead of being absorbed by pool liquidity)
	ctx := w.Ctx()
	pair := pairs[r.Intn(len(pairs))]
	for _, pr := range pairs {
		if len(w.App.LiquidityKeeper.GetPoolsByPair(ctx, pr.AppId, pr.Id)) == 0 && r.Intn(4) != 0 {
			pair = pr
			break
		}
	}
	gp := w.dexParams(pair.AppId)
	prec := int(gp.TickPrecision)
	ref := w.dexRefPrice(pair)
	restBuy := r.Intn(4) != 0
	var limit sdk.Dec
	if restBuy {
		limit = tickDown(ref.Mul(decFrac(r.Range(1000, 1020), 1000)), prec)
	} else {
		limit = tickUp(ref.Mul(decFrac(r.Range(980, 1000), 1000)), prec)
	}
	if !limit.IsPositive() {
		return nil
	}
	rest := w.dexUser(r)
	k := int(r.Range(2, 6))
	var pieces []sdk.Int
	total := sdk.ZeroInt()
	small := r.Bool()
	for i := 0; i < k; i++ {
		var a sdk.Int
		if small {
			a = sdk.NewInt(r.Range(100, 400))
		} else {
			a = logAmt(r, sdk.NewInt(100), w.Dex.MagUnit.QuoRaw(1000).AddRaw(1000))
		}
		pieces = append(pieces, a)
		total = total.Add(a)
	}
	// the last piece may overshoot what is left by a few units
	amount := total.SubRaw(r.Range(0, 5))
	if amount.LT(sdk.NewInt(100)) {
		return nil
	}
	mk := func(a *Actor, buy bool, price sdk.Dec, amt sdk.Int, life time.Duration) *Event {
		offerDenom, demandDenom := pair.QuoteCoinDenom, pair.BaseCoinDenom
		dir := liqtypes.OrderDirectionBuy
		need := amm.OfferCoinAmount(amm.Buy, price, amt)
		if !buy {
			offerDenom, demandDenom = pair.BaseCoinDenom, pair.QuoteCoinDenom
			dir = liqtypes.OrderDirectionSell
			need = amt
		}
		offer := need.Add(feeOn(need, gp)).AddRaw(1)
		if offer.GT(w.Bal(a.Addr, offerDenom)) {
			return nil
		}
		return w.TxEvent("order.limit", a, liqtypes.NewMsgLimitOrder(pair.AppId, a.Addr, pair.Id, dir, sdk.NewCoin(offerDenom, offer), demandDenom, price, amt, life))
	}
	first := mk(rest, restBuy, limit, amount, gp.MaxOrderLifespan)
	if first == nil {
		return nil
	}
	first.Tag = "order.ladder"
	// two shapes: every piece in a batch of its own, or one piece (so that the order is carried over, partially
	// paid) followed by all the others in one batch on neighbouring ticks (several fills of the order in one batch)
	sameBatch := r.Intn(3) != 0
	for i, a := range pieces {
		price := limit
		if (sameBatch && i > 0) || r.Intn(3) == 0 { // a few ticks inside the resting order's limit
			for j := int64(0); j < r.Range(0, 3); j++ {
				if restBuy {
					price = amm.DownTick(price, prec)
				} else {
					price = amm.UpTick(price, prec)
				}
			}
		}
		var other *Actor
		for tries := 0; tries < 4; tries++ {
			other = w.dexUser(r)
			if other.Idx != rest.Idx {
				break
			}
		}
		ev := mk(other, !restBuy, price, a, time.Duration(r.Range(0, 3))*time.Second)
		if ev == nil {
			continue
		}
		ev.Tag = "order.ladder"
		first.then = append(first.then, ev)
		if !sameBatch || i == 0 || i == len(pieces)-1 {
			first.then = append(first.then, &Event{Kind: "block", Tag: "block", GapS: r.Range(1, 3), N: 1})
		}
	}
	w.Stats.Probe("dex.gen.ladder")
	return first
}

// genBurst puts several orders of different owners and very different sizes (some tiny) on one tick within one batch
// - one priority group for the pro-rata distribution - and meets them with an opposing order that fills the tick only
// partially (a sliver, a third, or all but a few units): shares that truncate to zero, the remainder pass and the
// re-distribution among the orders that did get a share all run.
func (w *World) genBurst(r *Rng) *Event {
	pairs := w.dexPairs()
	if len(pairs) == 0 {
		return nil
	}
	pair := pairs[r.Intn(len(pairs))]
	gp := w.dexParams(pair.AppId)
	prec := int(gp.TickPrecision)
	ref := w.dexRefPrice(pair)
	restBuy := r.Bool()
	var limit sdk.Dec
	if restBuy {
		limit = tickDown(ref.Mul(decFrac(r.Range(985, 1000), 1000)), prec)
	} else {
		limit = tickUp(ref.Mul(decFrac(r.Range(1000, 1015), 1000)), prec)
	}
	if !limit.IsPositive() {
		return nil
	}
	mk := func(a *Actor, buy bool, price sdk.Dec, amt sdk.Int, life time.Duration) *Event {
		offerDenom, demandDenom := pair.QuoteCoinDenom, pair.BaseCoinDenom
		dir := liqtypes.OrderDirectionBuy
		need := amm.OfferCoinAmount(amm.Buy, price, amt)
		if !buy {
			offerDenom, demandDenom = pair.BaseCoinDenom, pair.QuoteCoinDenom
			dir = liqtypes.OrderDirectionSell
			need = amt
		}
		offer := need.Add(feeOn(need, gp)).AddRaw(1)
		if offer.GT(w.Bal(a.Addr, offerDenom)) {
			return nil
		}
		ev := w.TxEvent("order.limit", a, liqtypes.NewMsgLimitOrder(pair.AppId, a.Addr, pair.Id, dir, sdk.NewCoin(offerDenom, offer), demandDenom, price, amt, life))
		ev.Tag = "order.burst"
		return ev
	}
	n := int(r.Range(3, 6))
	var evs []*Event
	total := sdk.ZeroInt()
	users := w.Dex.Users
	start := r.Intn(len(users))
	for i := 0; i < n; i++ {
		a := w.Actors[users[(start+i)%len(users)]]
		var amt sdk.Int
		switch r.Intn(3) {
		case 0:
			amt = sdk.NewInt(r.Range(100, 140))
		case 1:
			amt = sdk.NewInt(r.Range(1000, 100000))
		default:
			amt = logAmt(r, sdk.NewInt(100), w.Dex.MagUnit.QuoRaw(100).AddRaw(1000))
		}
		ev := mk(a, restBuy, limit, amt, gp.MaxOrderLifespan)
		if ev == nil {
			continue
		}
		evs = append(evs, ev)
		total = total.Add(amt)
	}
	if len(evs) < 2 {
		return nil
	}
	var hit sdk.Int
	switch r.Intn(4) {
	case 0:
		hit = sdk.NewInt(r.Range(100, 160))
	case 1:
		hit = total.QuoRaw(r.Range(2, 9)).AddRaw(r.Range(0, 3))
	case 2:
		hit = total.SubRaw(r.Range(1, 120))
		if limit.LT(sdk.OneDec()) && r.Bool() {
			// remainders of the size at which some orders' rests are still worth a quote unit and others' are not
			per := sdk.OneDec().Quo(limit).TruncateInt64()
			if per > 0 && per < 1_000_000_000 {
				hit = total.SubRaw(r.Range(1, 8*per))
			}
		}
	default:
		hit = total.MulRaw(r.Range(1, 99)).QuoRaw(100)
	}
	if hit.LT(sdk.NewInt(100)) {
		hit = sdk.NewInt(100)
	}
	aggressive := func() sdk.Dec {
		p2 := limit
		for j := int64(0); j < r.Range(1, 3); j++ {
			if restBuy {
				p2 = amm.DownTick(p2, prec)
			} else {
				p2 = amm.UpTick(p2, prec)
			}
		}
		return p2
	}
	p1 := limit
	if r.Intn(3) == 0 {
		if q := aggressive(); q.IsPositive() {
			p1 = q // the big taker crosses the resting tick; a later, smaller one sits exactly on it
		}
	}
	taker := w.Actors[users[(start+n)%len(users)]]
	if t := mk(taker, !restBuy, p1, hit, time.Duration(r.Range(0, 3))*time.Second); t != nil {
		evs = append(evs, t)
	}
	if !p1.Equal(limit) {
		if t := mk(w.Actors[users[(start+n+1)%len(users)]], !restBuy, limit, hit.QuoRaw(r.Range(2, 20)).AddRaw(r.Range(100, 200)), time.Duration(r.Range(0, 3))*time.Second); t != nil {
			evs = append(evs, t)
		}
	} else if r.Intn(2) == 0 {
		// a second taker on a neighbouring, more aggressive tick: the batch then has a price direction and the
		// tick-by-tick stage runs over what the single-price stage left on the resting tick
		p2 := limit
		for j := int64(0); j < r.Range(1, 3); j++ {
			if restBuy {
				p2 = amm.DownTick(p2, prec)
			} else {
				p2 = amm.UpTick(p2, prec)
			}
		}
		a2 := hit.QuoRaw(r.Range(2, 20)).AddRaw(r.Range(100, 200))
		if p2.IsPositive() {
			if t := mk(w.Actors[users[(start+n+1)%len(users)]], !restBuy, p2, a2, time.Duration(r.Range(0, 3))*time.Second); t != nil {
				evs = append(evs, t)
			}
		}
	}
	evs = append(evs, &Event{Kind: "block", Tag: "block", GapS: r.Range(1, 3), N: 1})
	first := evs[0]
	first.then = evs[1:]
	w.Stats.Probe("dex.gen.burst")
	return first
}

// genDormantPool (environment fault for the block hooks): somebody lists a new pair, seeds a pool for it and sends a few
// coins to the pair's swap-fee collector address, and then nobody trades it (the generators leave the pair alone), so the
// pair has no last price when the periodic swap-fee conversion reaches it. Another pair's fee collector gets coins too,
// so that the conversion has already done work for an earlier pool when it reaches the dormant one.
func (w *World) genDormantPool(r *Rng) *Event {
	if w.Dex == nil || len(w.Dex.Dormant) > 0 {
		return nil
	}
	h := w.Height()
	if d := 150 - h%150; d > 70 {
		return nil
	}
	ctx := w.Ctx()
	app := w.Dex.AppID
	have := map[string]bool{}
	for _, pr := range w.App.LiquidityKeeper.GetAllPairs(ctx, app) {
		have[pairDenomKey(pr.BaseCoinDenom, pr.QuoteCoinDenom)] = true
	}
	denoms := []string{}
	for _, a := range w.Dex.Traded {
		denoms = append(denoms, a.Denom)
	}
	if !w.Cfg.KB("fee_asset_traded") {
		denoms = append(denoms, "ucmdx")
	}
	var cands [][2]string
	for i := range denoms {
		for j := range denoms {
			if i != j && !have[pairDenomKey(denoms[i], denoms[j])] {
				cands = append(cands, [2]string{denoms[i], denoms[j]})
			}
		}
	}
	if len(cands) == 0 {
		return nil
	}
	c := cands[r.Intn(len(cands))]
	a := w.dexUser(r)
	x, y := sdk.NewInt(r.Range(2_000_000, 40_000_000)), sdk.NewInt(r.Range(2_000_000, 40_000_000))
	if w.Bal(a.Addr, c[1]).LT(x.MulRaw(2)) || w.Bal(a.Addr, c[0]).LT(y.MulRaw(2)) {
		return nil
	}
	pairID := w.App.LiquidityKeeper.GetLastPairID(ctx, app) + 1
	first := w.TxEvent("env.dormant_pool", a, liqtypes.NewMsgCreatePair(app, a.Addr, c[0], c[1]))
	first.Fault = "env.dormant_pool"
	gift := func(to sdk.AccAddress, denom string) *Event {
		amt := sdk.NewInt(r.Range(1000, 900000))
		ev := w.TxEvent("env.unsolicited", a, banktypes.NewMsgSend(a.Addr, to, sdk.NewCoins(sdk.NewCoin(denom, amt))))
		ev.Fault = "env.unsolicited"
		return ev
	}
	first.then = []*Event{
		w.TxEvent("env.dormant_pool", a, liqtypes.NewMsgCreatePool(app, a.Addr, pairID, sdk.NewCoins(sdk.NewCoin(c[1], x), sdk.NewCoin(c[0], y)))),
		gift(liqtypes.PairSwapFeeCollectorAddress(app, pairID), c[r.Intn(2)]),
		gift(liqtypes.PairSwapFeeCollectorAddress(app, pairID), c[r.Intn(2)]),
	}
	// coins for the collectors of the pairs that do trade
	for _, pr := range w.App.LiquidityKeeper.GetAllPairs(ctx, app) {
		d := []string{pr.BaseCoinDenom, pr.QuoteCoinDenom}[r.Intn(2)]
		if w.Bal(a.Addr, d).GT(sdk.NewInt(2_000_000)) {
			first.then = append(first.then, gift(pr.GetSwapFeeCollectorAddress(), d))
		}
	}
	w.Dex.Dormant = map[pkey]bool{{app, pairID}: true}
	w.Stats.Probe("dex.gen.dormant_pool")
	return first
}

// genFarmSpread: one user provides liquidity to and farms several pools of an app in one go (the pool of a master-pool
// gauge first when there is one), so that master/child configurations have farmers on both sides with different weights.
func (w *World) genFarmSpread(r *Rng) *Event {
	pools := w.dexPools()
	if len(pools) < 2 {
		return nil
	}
	app := w.Dex.AppID
	var mine []dexPool
	for _, p := range pools {
		if p.AppId == app && !p.Disabled {
			mine = append(mine, p)
		}
	}
	if len(mine) < 2 {
		return nil
	}
	// master pool first
	for _, g := range w.App.Rewardskeeper.GetAllGauges(w.Ctx()) {
		if md := g.GetLiquidityMetaData(); md != nil && md.IsMasterPool && g.IsActive && g.AppId == app {
			for i, p := range mine {
				if p.Id == md.PoolId {
					mine[0], mine[i] = mine[i], mine[0]
				}
			}
			break
		}
	}
	a := w.dexUser(r)
	var evs []*Event
	for i, p := range mine {
		if i > 0 && r.Intn(3) == 0 {
			continue
		}
		coins := w.depositCoins(r, a, p)
		if coins.Empty() {
			continue
		}
		evs = append(evs, w.TxEvent("lp.deposit_farm", a, liqtypes.NewMsgDepositAndFarm(p.AppId, a.Addr, p.Id, coins)))
		if len(evs) == 3 {
			break
		}
	}
	if len(evs) < 2 {
		return nil
	}
	evs[0].then = evs[1:]
	w.Stats.Probe("dex.gen.farm_spread")
	return evs[0]
}
