package main

// DexPlan is set-up data of the liquidity scenario.
type DexPlan struct{}
