package main

import (
	"fmt"

	"github.com/bandprotocol/bandchain-packet/obi"
	"github.com/bandprotocol/bandchain-packet/packet"
	sdk "github.com/cosmos/cosmos-sdk/types"
	channeltypes "github.com/cosmos/ibc-go/v7/modules/core/04-channel/types"
	porttypes "github.com/cosmos/ibc-go/v7/modules/core/05-port/types"

	"github.com/comdex-official/comdex/x/bandoracle"
	bandtypes "github.com/comdex-official/comdex/x/bandoracle/types"
)

// BandSim plays BandChain plus the relayer: it delivers the two independent packets of the oracle feed
// (acknowledgement carrying the request id; response carrying the rates) through the real IBC callbacks.
type BandSim struct {
	Channel      string
	TwaBatch     uint64
	AcceptedDiff int64
	NextReqID    int64

	// price process state (generator side only; events carry concrete rates)
	Prices     []uint64 // by position among oracle-priced assets in id order
	LastPeriod int64    // last 20-block period for which the relayer acted
	Custom     func(w *World, r *Rng) []*Event
}

const bandChannel = "channel-7"

func (w *World) SetupBand(twaBatch uint64, acceptedDiff int64) {
	ctx := w.Ctx()
	msg := bandtypes.NewMsgFetchPriceData(bandtypes.ModuleName, 112, bandChannel, nil, 3, 1,
		sdk.NewCoins(sdk.NewCoin("uband", sdk.NewInt(250000))), 600000, 600000, twaBatch, acceptedDiff)
	if err := w.App.BandoracleKeeper.AddFetchPriceRecords(ctx, *msg); err != nil {
		panic(err)
	}
	w.Band = &BandSim{Channel: bandChannel, TwaBatch: twaBatch, AcceptedDiff: acceptedDiff, NextReqID: 1000, LastPeriod: -1}
}

func (b *BandSim) ibc(w *World) porttypes.IBCModule {
	return bandoracle.NewIBCModule(w.App.BandoracleKeeper)
}

func (b *BandSim) AckEvent(reqID int64) *Event {
	return &Event{Kind: "band_ack", Tag: "band.ack", ReqID: reqID}
}

func (b *BandSim) RespEvent(reqID int64, rates []uint64) *Event {
	return &Event{Kind: "band_resp", Tag: "band.resp", ReqID: reqID, Rates: append([]uint64(nil), rates...), Chan: b.Channel}
}

// DeliverAck calls the real OnAcknowledgementPacket with an acknowledgement carrying ReqID.
func (b *BandSim) DeliverAck(w *World, ev *Event) (err error) {
	defer func() {
		if r := recover(); r != nil {
			err = fmt.Errorf("panic in OnAcknowledgementPacket: %v", r)
			w.Panicked = err.Error()
		}
	}()
	ctx := w.WCtx()
	calldata := obi.MustEncode(bandtypes.FetchPriceCallData{Symbols: []string{"X"}, Multiplier: 1000000})
	reqData := packet.NewOracleRequestPacketData(bandtypes.FetchPriceClientIDKey, 112, calldata, 3, 1,
		sdk.NewCoins(sdk.NewCoin("uband", sdk.NewInt(250000))), 600000, 600000)
	pkt := channeltypes.Packet{Sequence: uint64(ev.ReqID), SourcePort: bandtypes.PortID, SourceChannel: b.Channel,
		DestinationPort: "oracle", DestinationChannel: "channel-99", Data: reqData.GetBytes()}
	ack := channeltypes.NewResultAcknowledgement(bandtypes.ModuleCdc.MustMarshalJSON(packet.NewOracleRequestPacketAcknowledgement(uint64(ev.ReqID))))
	ackBz := bandtypes.ModuleCdc.MustMarshalJSON(&ack)
	w.Stats.Probe("band.ack_delivered")
	return b.ibc(w).OnAcknowledgementPacket(ctx, pkt, ackBz, nil)
}

// DeliverResp calls the real OnRecvPacket with an OracleResponsePacketData carrying the rates.
func (b *BandSim) DeliverResp(w *World, ev *Event) (err error) {
	defer func() {
		if r := recover(); r != nil {
			err = fmt.Errorf("panic in OnRecvPacket: %v", r)
			w.Panicked = err.Error()
		}
	}()
	ctx := w.WCtx()
	res := obi.MustEncode(bandtypes.FetchPriceResult{Rates: ev.Rates})
	data := packet.OracleResponsePacketData{ClientID: bandtypes.FetchPriceClientIDKey, RequestID: uint64(ev.ReqID), AnsCount: 3,
		RequestTime: ctx.BlockTime().Unix() - 5, ResolveTime: ctx.BlockTime().Unix(), ResolveStatus: packet.RESOLVE_STATUS_SUCCESS, Result: res}
	ch := ev.Chan
	if ch == "" {
		ch = b.Channel
	}
	pkt := channeltypes.Packet{Sequence: uint64(ev.ReqID), SourcePort: "oracle", SourceChannel: "channel-99",
		DestinationPort: bandtypes.PortID, DestinationChannel: ch, Data: bandtypes.ModuleCdc.MustMarshalJSON(&data)}
	ackRes := b.ibc(w).OnRecvPacket(ctx, pkt, nil)
	w.Stats.Probe("band.resp_delivered")
	if ackRes != nil && !ackRes.Success() {
		return fmt.Errorf("recv not acknowledged")
	}
	return nil
}

// PricePath kinds
const (
	pathFlat = iota
	pathWalk
	pathCrash
	pathSpike
	pathSaw
)

// StepPrices advances the generator-side price process by one fetch period.
func (b *BandSim) StepPrices(r *Rng, mode int64, vol int64) {
	for i := range b.Prices {
		p := b.Prices[i]
		switch mode {
		case pathFlat:
			if r.Chance(1, 10) {
				p = stepPct(r, p, 2)
			}
		case pathWalk:
			p = stepPct(r, p, vol)
		case pathCrash:
			if r.Chance(1, 6) {
				p = p * uint64(r.Range(30, 80)) / 100
			} else {
				p = stepPct(r, p, vol)
			}
		case pathSpike:
			if r.Chance(1, 6) {
				p = p * uint64(r.Range(120, 300)) / 100
			} else {
				p = stepPct(r, p, vol)
			}
		case pathSaw:
			if r.Bool() {
				p = p * uint64(r.Range(50, 90)) / 100
			} else {
				p = p * uint64(r.Range(110, 200)) / 100
			}
		}
		if p < 1 {
			p = 1
		}
		if p > 1<<50 {
			p = 1 << 50
		}
		b.Prices[i] = p
	}
}

func stepPct(r *Rng, p uint64, vol int64) uint64 {
	if vol < 1 {
		vol = 1
	}
	d := r.Range(-vol, vol)
	np := int64(p) + int64(p)*d/100
	if np < 1 {
		np = 1
	}
	return uint64(np)
}

// RelayerEvents is called by schedulers just before a block that precedes a fetch height (h%20==19) ends:
// it returns the packet deliveries for this period according to the PRNG-chosen fates.
// faultRate is per-mille probability that the period is not a clean ack+resp.
func (b *BandSim) RelayerEvents(w *World, r *Rng, faultPermille int, pathMode, vol int64) []*Event {
	period := (w.Height() + 1) / 20
	if b.LastPeriod == period {
		return nil
	}
	b.LastPeriod = period
	if b.Custom != nil {
		return b.Custom(w, r)
	}
	b.StepPrices(r, pathMode, vol)
	b.NextReqID++
	id := b.NextReqID
	rates := append([]uint64(nil), b.Prices...)
	clean := []*Event{b.AckEvent(id), b.RespEvent(id, rates)}
	if faultPermille <= 0 || r.Intn(1000) >= faultPermille {
		return clean
	}
	switch r.Intn(9) {
	case 0: // silence: both lost
		return []*Event{{Kind: "check", Tag: "band.silence", Fault: "pkt.drop_both"}}
	case 1: // ack lost -> request id unchanged -> validation fails
		e := b.RespEvent(id, rates)
		e.Fault = "pkt.drop_ack"
		return []*Event{e}
	case 2: // response lost: id changes but no result stored for it
		e := b.AckEvent(id)
		e.Fault = "pkt.drop_resp"
		return []*Event{e}
	case 3: // reorder: response first, then ack
		e := b.RespEvent(id, rates)
		e.Fault = "pkt.reorder"
		return []*Event{e, b.AckEvent(id)}
	case 4: // duplicate both
		e := b.AckEvent(id)
		e.Fault = "pkt.dup"
		return []*Event{clean[0], clean[1], e, b.RespEvent(id, rates)}
	case 5: // zero rate for one symbol
		if len(rates) > 0 {
			rates[r.Intn(len(rates))] = 0
		}
		e := b.RespEvent(id, rates)
		e.Fault = "pkt.zero"
		return []*Event{b.AckEvent(id), e}
	case 6: // short list
		if len(rates) > 0 {
			rates = rates[:r.Intn(len(rates))]
		}
		e := b.RespEvent(id, rates)
		e.Fault = "pkt.short"
		return []*Event{b.AckEvent(id), e}
	case 7: // stale: old request id acknowledged again (id does not change)
		e := b.AckEvent(id - 1)
		e.Fault = "pkt.stale"
		b.NextReqID--
		return []*Event{e}
	default: // wrong channel on the response
		e := b.RespEvent(id, rates)
		e.Chan = "channel-666"
		e.Fault = "pkt.wrong_channel"
		return []*Event{b.AckEvent(id), e}
	}
}
