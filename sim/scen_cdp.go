package main

import (
	"strings"
	"fmt"
	"math/big"

	sdk "github.com/cosmos/cosmos-sdk/types"

	"github.com/comdex-official/comdex/app/wasm/bindings"
	assettypes "github.com/comdex-official/comdex/x/asset/types"
	rewardstypes "github.com/comdex-official/comdex/x/rewards/types"
	banktypes "github.com/cosmos/cosmos-sdk/x/bank/types"
	vaulttypes "github.com/comdex-official/comdex/x/vault/types"
)

// AssetInfo is set-up data about one asset.
type AssetInfo struct {
	ID       uint64
	Name     string
	Denom    string
	Decimals sdk.Int
	Oracle   bool
	OIdx     int // position among oracle-priced assets (index into band rates)
}

// ProductInfo is set-up data about one extended vault pair.
type ProductInfo struct {
	ExtID  uint64
	AppID  uint64
	PairID uint64
	In     *AssetInfo
	Out    *AssetInfo
	Stable bool
}

type CdpPlan struct {
	AppID      uint64
	AppIDs     []uint64
	Assets     []*AssetInfo
	Products   []*ProductInfo
	Debt       *AssetInfo
	Gov        *AssetInfo
	Users      []int // actor indexes
	Bidders    []int
	Attacker   int
	Admin      int
	Keeper     int
	PathMode   int64
	Vol        int64
	PktFault   int // permille
	OogRate    int // permille of txs delivered with a gas limit that dies mid-handler
	GapProfile int64
}

func (w *World) assetByID(id uint64) *AssetInfo {
	if w.Cdp != nil {
		for _, a := range w.Cdp.Assets {
			if a.ID == id {
				return a
			}
		}
	}
	return nil
}

func pow10(n int) sdk.Int {
	return sdk.NewIntFromBigInt(new(big.Int).Exp(big.NewInt(10), big.NewInt(int64(n)), nil))
}

var decChoices = []int{6, 8, 18}

func (w *World) addAsset(name, denom string, dec sdk.Int, oracle, mintable bool) uint64 {
	ctx := w.Ctx()
	err := w.App.AssetKeeper.AddAssetRecords(ctx, assettypes.Asset{Name: name, Denom: denom, Decimals: dec, IsOnChain: true, IsOraclePriceRequired: oracle, IsCdpMintable: mintable})
	if err != nil {
		panic(fmt.Sprintf("add asset %s: %v", name, err))
	}
	id, _ := w.App.AssetKeeper.GetAssetForDenom(ctx, denom)
	return id.Id
}

func (w *World) addApp(name, short string) uint64 {
	ctx := w.Ctx()
	err := w.App.AssetKeeper.AddAppRecords(ctx, assettypes.AppData{Name: name, ShortName: short, MinGovDeposit: sdk.ZeroInt(), GovTimeInSeconds: 0})
	if err != nil {
		panic(fmt.Sprintf("add app %s: %v", name, err))
	}
	return w.App.AssetKeeper.GetAppID(ctx)
}

func (w *World) addPair(in, out uint64) uint64 {
	ctx := w.Ctx()
	if err := w.App.AssetKeeper.AddPairsRecords(ctx, assettypes.Pair{AssetIn: in, AssetOut: out}); err != nil {
		panic(fmt.Sprintf("add pair %d/%d: %v", in, out, err))
	}
	return w.App.AssetKeeper.GetPairID(ctx)
}

func decStr(s string) sdk.Dec { return sdk.MustNewDecFromStr(s) }

// drawCdpConfig draws the swarm configuration for a cdp-family run.
func drawCdpConfig(r *Rng, cfg *Config) {
	k := cfg.Knobs
	k["n_users"] = r.Range(3, 7)
	k["n_collateral"] = r.Range(1, 3)
	k["n_products"] = r.Range(2, 5)
	k["twa_batch"] = []int64{1, 1, 2, 3}[r.Intn(4)]
	k["accepted_diff"] = []int64{20, 40, 100}[r.Intn(3)]
	k["path_mode"] = int64(r.Intn(5))
	k["vol"] = r.Range(1, 25)
	k["filler_apps"] = r.Range(0, 2)
	k["debt_dec"] = int64([]int{6, 6, 6, 8, 18}[r.Intn(5)])
	k["stable_in_dec"] = int64([]int{6, 6, 8, 18}[r.Intn(4)])
	k["debt_oracle"] = int64(r.Intn(2))
	k["pkt_fault"] = []int64{0, 0, 30, 100, 300}[r.Intn(5)]
	k["oog"] = []int64{0, 0, 20, 80}[r.Intn(4)]
	k["gap_profile"] = int64(r.Intn(4))
	k["vault_interest"] = int64(r.Intn(4)) // 0 = app not whitelisted for interest
	k["unsolicited"] = int64(r.Intn(3))    // 0 = never
	if r.Chance(3, 4) {
		k["debt_oracle"] = 1 // V2 auctions need an active price record for the debt asset
	}
	drawLiqConfig(r, cfg)
	drawAuxConfig(r, cfg)
	k["esm"] = 0
	if r.Chance(1, 4) || (strings.Contains(cfg.Scenario, "+ctl") && r.Chance(1, 2)) {
		k["esm"] = 1
	}
	k["breaker_w"] = []int64{0, 1, 3, 3}[r.Intn(4)] // 0: the admin never touches the breaker in this run
}

func feeChoice(r *Rng) sdk.Dec {
	return []sdk.Dec{sdk.ZeroDec(), sdk.ZeroDec(), decStr("0.001"), decStr("0.01"), decStr("0.05"), decStr("0.5"), decStr("0.99")}[r.Intn(7)]
}

// setupCdp builds apps, assets, pairs, products, collector tables and the oracle; funds users.
func setupCdp(w *World) {
	cfg := &w.Cfg
	r := NewRng(MixSeed(cfg.Seed, "setup", 0))
	p := &CdpPlan{PathMode: cfg.K("path_mode"), Vol: cfg.K("vol"), PktFault: int(cfg.K("pkt_fault")), OogRate: int(cfg.K("oog")), GapProfile: cfg.K("gap_profile")}
	w.Cdp = p

	fillers := [][2]string{{"cswap", "cswap"}, {"commodo", "cmdo"}}
	for i := 0; i < int(cfg.K("filler_apps")); i++ {
		p.AppIDs = append(p.AppIDs, w.addApp(fillers[i][0], fillers[i][1]))
	}
	if cfg.KB("esm") {
		// emergency shutdown needs a governance token: the app is created with governance parameters
		if err := w.App.AssetKeeper.AddAppRecords(w.Ctx(), assettypes.AppData{Name: "harbor", ShortName: "hbr", MinGovDeposit: sdk.NewInt(1000000), GovTimeInSeconds: 300}); err != nil {
			panic(err)
		}
		p.AppID = w.App.AssetKeeper.GetAppID(w.Ctx())
	} else {
		p.AppID = w.addApp("harbor", "hbr")
	}
	p.AppIDs = append(p.AppIDs, p.AppID)

	// assets; names must be ^[A-Z]+$
	oidx := 0
	mk := func(name, denom string, dec int, oracle, mintable bool) *AssetInfo {
		a := &AssetInfo{Name: name, Denom: denom, Decimals: pow10(dec), Oracle: oracle, OIdx: -1}
		a.ID = w.addAsset(name, denom, a.Decimals, oracle, mintable)
		if oracle {
			a.OIdx = oidx
			oidx++
		}
		p.Assets = append(p.Assets, a)
		return a
	}
	// filler asset so that asset ids and pair ids are not aligned
	if r.Bool() {
		mk("FILLER", "ufiller", 6, false, false)
	}
	nColl := int(cfg.K("n_collateral"))
	collNames := []string{"CMDX", "ATOM", "OSMO"}
	var colls []*AssetInfo
	for i := 0; i < nColl; i++ {
		colls = append(colls, mk(collNames[i], "u"+string([]byte{byte('a' + i)})+"coll", decChoices[r.Intn(3)], true, false))
	}
	p.Debt = mk("CMST", "ucmst", int(cfg.K("debt_dec")), cfg.KB("debt_oracle"), true)
	stableIn := mk("USDC", "uusdc", int(cfg.K("stable_in_dec")), r.Bool(), false)
	p.Gov = mk("HARBOR", "uharbor", 6, false, false)

	// the governance token is a genesis token of the app (as on the live chain; tokenmint and collector set-up rely on it)
	if err := w.App.AssetKeeper.AddAssetInAppRecords(w.Ctx(), assettypes.AppData{Id: p.AppID, GenesisToken: []assettypes.MintGenesisToken{
		{AssetId: p.Gov.ID, GenesisSupply: pow10(12), IsGovToken: cfg.KB("esm"), Recipient: w.Actors[0].Bech()}}}); err != nil {
		panic(fmt.Sprintf("genesis token: %v", err))
	}
	// pairs
	pairOf := map[uint64]uint64{}
	for _, c := range colls {
		pairOf[c.ID] = w.addPair(c.ID, p.Debt.ID)
	}
	stablePair := w.addPair(stableIn.ID, p.Debt.ID)

	// products
	nProd := int(cfg.K("n_products"))
	names := []string{"A", "B", "C", "D", "E", "F"}
	ctx := w.Ctx()
	debtUnit := p.Debt.Decimals
	for i := 0; i < nProd; i++ {
		c := colls[i%len(colls)]
		minCr := []string{"1.05", "1.2", "1.5", "1.7", "2", "3"}[r.Intn(6)]
		floor := debtUnit.MulRaw(r.Range(1, 50)).QuoRaw(10)        // 0.1 .. 5 tokens
		ceil := debtUnit.MulRaw(r.Range(20, 5000))                 // 20 .. 5000 tokens
		if p.Debt.Decimals.GT(pow10(8)) {                           // keep below int64 arithmetic of the module
			floor = debtUnit.MulRaw(r.Range(1, 10)).QuoRaw(100)
			ceil = debtUnit.MulRaw(r.Range(1, 9))
		}
		b := &bindings.MsgAddExtendedPairsVault{
			AppID: p.AppID, PairID: pairOf[c.ID], StabilityFee: []sdk.Dec{sdk.ZeroDec(), decStr("0.01"), decStr("0.1"), decStr("0.5"), decStr("0.99")}[r.Intn(5)],
			ClosingFee: feeChoice(r), LiquidationPenalty: []sdk.Dec{decStr("0.05"), decStr("0.12"), decStr("0.3")}[r.Intn(3)], DrawDownFee: feeChoice(r),
			IsVaultActive: true, DebtCeiling: ceil, DebtFloor: floor, MinCr: decStr(minCr), PairName: c.Name + "-" + names[i],
			AssetOutOraclePrice: p.Debt.Oracle && r.Chance(2, 3), AssetOutPrice: uint64(r.Range(900000, 1100000)), MinUsdValueLeft: uint64(r.Range(0, 2000000)),
		}
		if err := w.App.AssetKeeper.WasmAddExtendedPairsVaultRecords(ctx, b); err != nil {
			panic(fmt.Sprintf("add ext pair: %v", err))
		}
		id := w.App.AssetKeeper.GetPairsVaultID(ctx)
		p.Products = append(p.Products, &ProductInfo{ExtID: id, AppID: p.AppID, PairID: pairOf[c.ID], In: c, Out: p.Debt})
	}
	// one stable-mint product
	{
		floor := debtUnit.QuoRaw(100)
		ceil := debtUnit.MulRaw(r.Range(100, 100000))
		if p.Debt.Decimals.GT(pow10(8)) {
			ceil = debtUnit.MulRaw(r.Range(2, 9))
		}
		b := &bindings.MsgAddExtendedPairsVault{
			AppID: p.AppID, PairID: stablePair, StabilityFee: sdk.ZeroDec(), ClosingFee: sdk.ZeroDec(), LiquidationPenalty: sdk.ZeroDec(),
			DrawDownFee: []sdk.Dec{sdk.ZeroDec(), sdk.ZeroDec(), decStr("0.001"), decStr("0.01")}[r.Intn(4)], IsVaultActive: true, DebtCeiling: ceil, DebtFloor: floor,
			IsStableMintVault: true, MinCr: decStr("1"), PairName: "USDC-S", AssetOutOraclePrice: false, AssetOutPrice: 1000000, MinUsdValueLeft: 0,
		}
		if err := w.App.AssetKeeper.WasmAddExtendedPairsVaultRecords(ctx, b); err != nil {
			panic(fmt.Sprintf("add stable ext pair: %v", err))
		}
		id := w.App.AssetKeeper.GetPairsVaultID(ctx)
		p.Products = append(p.Products, &ProductInfo{ExtID: id, AppID: p.AppID, PairID: stablePair, In: stableIn, Out: p.Debt, Stable: true})
	}

	// a sister app (knob sister_app): one fee-less product on the first collateral under a second app that is whitelisted for
	// nothing (no liquidation, no interest, no collector table). Its vaults share the vault list, the custody account and the
	// liquidation sweep with the main app's: every sweep step on one of them reports failure.
	if cfg.KB("sister_app") {
		sister := w.addApp("sister", "sis")
		p.AppIDs = append(p.AppIDs, sister)
		c := colls[0]
		floor := debtUnit.QuoRaw(10)
		ceil := debtUnit.MulRaw(r.Range(20, 5000))
		if p.Debt.Decimals.GT(pow10(8)) {
			floor = debtUnit.QuoRaw(100)
			ceil = debtUnit.MulRaw(r.Range(1, 9))
		}
		b := &bindings.MsgAddExtendedPairsVault{
			AppID: sister, PairID: pairOf[c.ID], StabilityFee: sdk.ZeroDec(), ClosingFee: sdk.ZeroDec(), LiquidationPenalty: decStr("0.1"), DrawDownFee: sdk.ZeroDec(),
			IsVaultActive: true, DebtCeiling: ceil, DebtFloor: floor, MinCr: decStr([]string{"1.2", "1.5", "2"}[r.Intn(3)]), PairName: c.Name + "-S",
			AssetOutOraclePrice: p.Debt.Oracle && r.Bool(), AssetOutPrice: uint64(r.Range(900000, 1100000)), MinUsdValueLeft: 0,
		}
		if err := w.App.AssetKeeper.WasmAddExtendedPairsVaultRecords(ctx, b); err != nil {
			panic(fmt.Sprintf("add sister ext pair: %v", err))
		}
		p.Products = append(p.Products, &ProductInfo{ExtID: w.App.AssetKeeper.GetPairsVaultID(ctx), AppID: sister, PairID: pairOf[c.ID], In: c, Out: p.Debt})
	}

	// collector lookup for the debt asset (fees are booked per (app, debt asset))
	lsr := []sdk.Dec{sdk.ZeroDec(), decStr("0.02"), decStr("0.2")}[r.Intn(3)]
	if err := w.App.CollectorKeeper.WasmSetCollectorLookupTable(ctx, &bindings.MsgSetCollectorLookupTable{
		AppID: p.AppID, CollectorAssetID: p.Debt.ID, SecondaryAssetID: p.Gov.ID, SurplusThreshold: debtUnit.MulRaw(r.Range(1, 50)), DebtThreshold: debtUnit.MulRaw(r.Range(1, 5)).QuoRaw(10),
		LockerSavingRate: lsr, LotSize: debtUnit.MulRaw(r.Range(1, 5)).QuoRaw(10), BidFactor: decStr("0.01"), DebtLotSize: pow10(6).MulRaw(r.Range(1, 20)),
	}); err != nil {
		panic(err)
	}
	if cfg.K("vault_interest") != 0 {
		if _, err := w.App.Rewardskeeper.WhitelistAppVault(ctx, &rewardstypes.WhitelistAppIdVault{From: w.Actors[0].Bech(), AppMappingId: p.AppID}); err != nil {
			panic(err)
		}
	}

	// oracle
	w.SetupBand(uint64(cfg.K("twa_batch")), cfg.K("accepted_diff"))
	w.Band.Prices = make([]uint64, oidx)
	for _, a := range p.Assets {
		if a.Oracle {
			switch a.Name {
			case "CMST", "USDC":
				w.Band.Prices[a.OIdx] = uint64(r.Range(950000, 1050000))
			default:
				w.Band.Prices[a.OIdx] = uint64(r.Range(50000, 50000000)) // $0.05 .. $50
			}
		}
	}

	// actors: users then bidders, attacker, admin, keeper
	nUsers := int(cfg.K("n_users"))
	for i := 0; i < nUsers; i++ {
		p.Users = append(p.Users, i)
	}
	p.Bidders = []int{nUsers, nUsers + 1}
	p.Attacker = nUsers + 2
	p.Admin = nUsers + 3
	p.Keeper = nUsers + 4
	for i := 0; i <= p.Keeper; i++ {
		var coins sdk.Coins
		for _, a := range p.Assets {
			if a == p.Debt {
				continue
			}
			coins = coins.Add(sdk.NewCoin(a.Denom, a.Decimals.MulRaw(r.Range(100, 1000000))))
		}
		w.Fund(w.Actors[i].Addr, coins)
	}
	// bidders and the keeper hold debt tokens from the faucet (tracked; excluded from the "minted through vaults" supply)
	for _, i := range append(append([]int{}, p.Bidders...), p.Keeper, p.Attacker) {
		w.Fund(w.Actors[i].Addr, sdk.NewCoins(sdk.NewCoin(p.Debt.Denom, p.Debt.Decimals.MulRaw(r.Range(1000, 1000000)))))
	}
	setupLiqV2(w, r)
	setupV1(w, r)
	setupAux(w, r)
	setupEsm(w, r)
	w.touchModuleAccounts()
	w.Liq = newLiqTracker(w)
	w.OnBlock = append(w.OnBlock, func(w *World) { w.Liq.observe(w, false, true) })
}

const cdpActors = 12

// warmOracle drives blocks until prices are active (set-up phase, not recorded; deterministic).
func (w *World) warmOracle() {
	r := NewRng(MixSeed(w.Cfg.Seed, "warm", 0))
	need := int(w.Band.TwaBatch) + 2
	for i := 0; i < need*20+2; i++ {
		if (w.Height()+1)%20 == 0 {
			for _, ev := range w.Band.RelayerEvents(w, r, 0, pathFlat, 1) {
				w.Apply(ev)
			}
		}
		w.EndBlockAndBegin(5e9)
		if w.Panicked != "" {
			return
		}
	}
}

// ---------- generators ----------

type OpGen struct {
	Name   string
	Weight int
	Gen    func(w *World, r *Rng) *Event // nil when not applicable
}

func (w *World) cdpUser(r *Rng) *Actor { return w.Actors[w.Cdp.Users[r.Intn(len(w.Cdp.Users))]] }

// amount around n units of asset with log-uniform spread.
func amtAround(r *Rng, unit sdk.Int, loMilli, hiMilli int64) sdk.Int {
	// value in [lo, hi] thousandths of a unit, log-uniform
	lo, hi := float64(loMilli), float64(hiMilli)
	f := r.Float()
	v := lo
	if hi > lo {
		v = lo * pow(hi/lo, f)
	}
	m := int64(v)
	if m < 1 {
		m = 1
	}
	return unit.MulRaw(m).QuoRaw(1000)
}

func pow(b, e float64) float64 {
	// exp(e*ln b) without importing math in several files
	return mathPow(b, e)
}

// price of one whole token of asset a in micro-dollars, from the chain's TWA (0 if inactive / not oracle).
func (w *World) tokenPrice(a *AssetInfo, prod *ProductInfo) (uint64, bool) {
	ctx := w.Ctx()
	twa, found := w.App.MarketKeeper.GetTwa(ctx, a.ID)
	if found && twa.IsPriceActive {
		return twa.Twa, true
	}
	return 0, false
}

func (w *World) productDebtPrice(prod *ProductInfo) (uint64, bool) {
	ctx := w.Ctx()
	ep, ok := w.App.AssetKeeper.GetPairsVault(ctx, prod.ExtID)
	if !ok {
		return 0, false
	}
	if ep.AssetOutOraclePrice {
		return w.tokenPrice(prod.Out, prod)
	}
	return ep.AssetOutPrice, true
}

// maxDebtFor returns the debt amount that makes CR exactly minCr for collateral amtIn (floor), false if prices unavailable.
func (w *World) maxDebtFor(prod *ProductInfo, amtIn sdk.Int) (sdk.Int, bool) {
	ctx := w.Ctx()
	ep, ok := w.App.AssetKeeper.GetPairsVault(ctx, prod.ExtID)
	if !ok {
		return sdk.ZeroInt(), false
	}
	pin, ok1 := w.tokenPrice(prod.In, prod)
	pout, ok2 := w.productDebtPrice(prod)
	if !ok1 || !ok2 || pout == 0 {
		return sdk.ZeroInt(), false
	}
	// debt = amtIn*pin/decIn * decOut / (pout*minCr)
	num := new(big.Int).Mul(amtIn.BigInt(), new(big.Int).SetUint64(pin))
	num.Mul(num, prod.Out.Decimals.BigInt())
	num.Mul(num, big.NewInt(1_000_000_000_000_000_000))
	den := new(big.Int).Mul(prod.In.Decimals.BigInt(), new(big.Int).SetUint64(pout))
	den.Mul(den, ep.MinCr.BigInt())
	if den.Sign() == 0 {
		return sdk.ZeroInt(), false
	}
	return sdk.NewIntFromBigInt(num.Quo(num, den)), true
}

func (w *World) userVault(a *Actor, prod *ProductInfo) (vaulttypes.Vault, bool) {
	ctx := w.Ctx()
	m, ok := w.App.VaultKeeper.GetUserAppExtendedPairMappingData(ctx, a.Bech(), prod.AppID, prod.ExtID)
	if !ok {
		return vaulttypes.Vault{}, false
	}
	return w.App.VaultKeeper.GetVault(ctx, m.VaultId)
}

func (w *World) pickProduct(r *Rng, stable bool) *ProductInfo {
	var c []*ProductInfo
	for _, p := range w.Cdp.Products {
		if p.Stable == stable {
			c = append(c, p)
		}
	}
	if len(c) == 0 {
		return nil
	}
	return c[r.Intn(len(c))]
}

// boundary perturbation: -2..+2 units most of the time, sometimes larger slack.
func perturb(r *Rng, v sdk.Int) sdk.Int {
	switch r.Intn(6) {
	case 0:
		return v
	case 1:
		return v.AddRaw(r.Range(-2, 2))
	case 2:
		return v.MulRaw(r.Range(30, 99)).QuoRaw(100)
	case 3:
		return v.MulRaw(r.Range(70, 99)).QuoRaw(100)
	case 4:
		return v.MulRaw(r.Range(101, 130)).QuoRaw(100)
	default:
		return v.AddRaw(r.Range(-1, 1))
	}
}

func posInt(v sdk.Int) sdk.Int {
	if !v.IsPositive() {
		return sdk.OneInt()
	}
	return v
}

// cfgTriggerBoost is set per world by the scenario wrapper (C18 runs trigger interest calculation far more often).
var cfgTriggerBoost int64

func cdpGens() []OpGen {
	return []OpGen{
		{"vault.create", 14, func(w *World, r *Rng) *Event {
			a := w.cdpUser(r)
			prod := w.pickProduct(r, false)
			if prod == nil {
				return nil
			}
			ctx := w.Ctx()
			ep, _ := w.App.AssetKeeper.GetPairsVault(ctx, prod.ExtID)
			amtIn := amtAround(r, prod.In.Decimals, 100, 2000000)
			out, ok := w.maxDebtFor(prod, amtIn)
			if !ok {
				out = ep.DebtFloor.MulRaw(2)
			}
			switch r.Intn(5) {
			case 0: // near the CR boundary
				out = perturb(r, out)
			case 1: // near the floor
				out = ep.DebtFloor.AddRaw(r.Range(-1, 1))
			case 2: // near the remaining ceiling
				minted, _ := w.App.VaultKeeper.CheckAppExtendedPairVaultMapping(ctx, prod.AppID, prod.ExtID)
				out = ep.DebtCeiling.Sub(minted).AddRaw(r.Range(-1, 1))
			default:
				out = out.MulRaw(r.Range(10, 95)).QuoRaw(100)
			}
			return w.TxEvent("vault.create", a, &vaulttypes.MsgCreateRequest{From: a.Bech(), AppId: prod.AppID, ExtendedPairVaultId: prod.ExtID, AmountIn: amtIn, AmountOut: posInt(out)})
		}},
		{"vault.deposit", 6, func(w *World, r *Rng) *Event {
			a := w.cdpUser(r)
			prod := w.pickProduct(r, false)
			v, ok := w.userVault(a, prod)
			if !ok {
				return nil
			}
			amt := amtAround(r, prod.In.Decimals, 1, 100000)
			if r.Chance(1, 8) {
				amt = sdk.OneInt()
			}
			return w.TxEvent("vault.deposit", a, &vaulttypes.MsgDepositRequest{From: a.Bech(), AppId: prod.AppID, ExtendedPairVaultId: prod.ExtID, UserVaultId: v.Id, Amount: amt})
		}},
		{"vault.withdraw", 8, func(w *World, r *Rng) *Event {
			a := w.cdpUser(r)
			prod := w.pickProduct(r, false)
			v, ok := w.userVault(a, prod)
			if !ok {
				return nil
			}
			ctx := w.Ctx()
			ep, _ := w.App.AssetKeeper.GetPairsVault(ctx, prod.ExtID)
			amt := v.AmountIn.MulRaw(r.Range(1, 60)).QuoRaw(100)
			// boundary: collateral needed for current debt at MinCr
			if r.Chance(1, 2) {
				debt := v.AmountOut.Add(v.InterestAccumulated).Add(v.ClosingFeeAccumulated)
				pin, ok1 := w.tokenPrice(prod.In, prod)
				pout, ok2 := w.productDebtPrice(prod)
				if ok1 && ok2 && pin > 0 {
					// needIn = debt*pout/decOut*minCr*decIn/pin
					num := new(big.Int).Mul(debt.BigInt(), new(big.Int).SetUint64(pout))
					num.Mul(num, ep.MinCr.BigInt())
					num.Mul(num, prod.In.Decimals.BigInt())
					den := new(big.Int).Mul(prod.Out.Decimals.BigInt(), new(big.Int).SetUint64(pin))
					den.Mul(den, big.NewInt(1_000_000_000_000_000_000))
					need := sdk.NewIntFromBigInt(num.Quo(num, den))
					amt = perturb(r, v.AmountIn.Sub(need))
				}
			}
			return w.TxEvent("vault.withdraw", a, &vaulttypes.MsgWithdrawRequest{From: a.Bech(), AppId: prod.AppID, ExtendedPairVaultId: prod.ExtID, UserVaultId: v.Id, Amount: posInt(amt)})
		}},
		{"vault.draw", 8, func(w *World, r *Rng) *Event {
			a := w.cdpUser(r)
			prod := w.pickProduct(r, false)
			v, ok := w.userVault(a, prod)
			if !ok {
				return nil
			}
			ctx := w.Ctx()
			ep, _ := w.App.AssetKeeper.GetPairsVault(ctx, prod.ExtID)
			max, ok := w.maxDebtFor(prod, v.AmountIn)
			amt := ep.DebtFloor
			if ok {
				room := max.Sub(v.AmountOut).Sub(v.InterestAccumulated).Sub(v.ClosingFeeAccumulated)
				switch r.Intn(3) {
				case 0:
					amt = perturb(r, room)
				case 1:
					minted, _ := w.App.VaultKeeper.CheckAppExtendedPairVaultMapping(ctx, prod.AppID, prod.ExtID)
					amt = ep.DebtCeiling.Sub(minted).AddRaw(r.Range(-2, 1))
				default:
					amt = room.MulRaw(r.Range(1, 90)).QuoRaw(100)
				}
			}
			return w.TxEvent("vault.draw", a, &vaulttypes.MsgDrawRequest{From: a.Bech(), AppId: prod.AppID, ExtendedPairVaultId: prod.ExtID, UserVaultId: v.Id, Amount: posInt(amt)})
		}},
		{"vault.repay", 7, func(w *World, r *Rng) *Event {
			a := w.cdpUser(r)
			prod := w.pickProduct(r, false)
			v, ok := w.userVault(a, prod)
			if !ok {
				return nil
			}
			ctx := w.Ctx()
			ep, _ := w.App.AssetKeeper.GetPairsVault(ctx, prod.ExtID)
			var amt sdk.Int
			switch r.Intn(5) {
			case 0: // exactly the interest
				amt = v.InterestAccumulated.AddRaw(r.Range(-1, 1))
			case 1: // down to the floor
				amt = v.AmountOut.Add(v.InterestAccumulated).Sub(ep.DebtFloor).AddRaw(r.Range(-1, 2))
			case 2: // everything
				amt = v.AmountOut.Add(v.InterestAccumulated).AddRaw(r.Range(-1, 1))
			default:
				amt = v.AmountOut.MulRaw(r.Range(1, 80)).QuoRaw(100)
			}
			return w.TxEvent("vault.repay", a, &vaulttypes.MsgRepayRequest{From: a.Bech(), AppId: prod.AppID, ExtendedPairVaultId: prod.ExtID, UserVaultId: v.Id, Amount: posInt(amt)})
		}},
		{"vault.close", 4, func(w *World, r *Rng) *Event {
			a := w.cdpUser(r)
			prod := w.pickProduct(r, false)
			v, ok := w.userVault(a, prod)
			if !ok {
				return nil
			}
			return w.TxEvent("vault.close", a, &vaulttypes.MsgCloseRequest{From: a.Bech(), AppId: prod.AppID, ExtendedPairVaultId: prod.ExtID, UserVaultId: v.Id})
		}},
		{"vault.deposit_draw", 4, func(w *World, r *Rng) *Event {
			a := w.cdpUser(r)
			prod := w.pickProduct(r, false)
			v, ok := w.userVault(a, prod)
			if !ok {
				return nil
			}
			amt := amtAround(r, prod.In.Decimals, 1, 100000)
			return w.TxEvent("vault.deposit_draw", a, &vaulttypes.MsgDepositAndDrawRequest{From: a.Bech(), AppId: prod.AppID, ExtendedPairVaultId: prod.ExtID, UserVaultId: v.Id, Amount: amt})
		}},
		{"vault.interest", 4 + 30*int(cfgTriggerBoost), func(w *World, r *Rng) *Event {
			a := w.cdpUser(r)
			prod := w.pickProduct(r, false)
			v, ok := w.userVault(w.cdpUser(r), prod)
			if !ok {
				return nil
			}
			return w.TxEvent("vault.interest", a, &vaulttypes.MsgVaultInterestCalcRequest{From: a.Bech(), AppId: prod.AppID, UserVaultId: v.Id})
		}},
		{"stable.create", 3, func(w *World, r *Rng) *Event {
			a := w.cdpUser(r)
			prod := w.pickProduct(r, true)
			if prod == nil {
				return nil
			}
			amt := amtAround(r, prod.In.Decimals, 10, 500000)
			return w.TxEvent("stable.create", a, &vaulttypes.MsgCreateStableMintRequest{From: a.Bech(), AppId: prod.AppID, ExtendedPairVaultId: prod.ExtID, Amount: amt})
		}},
		{"stable.deposit", 5, func(w *World, r *Rng) *Event {
			a := w.cdpUser(r)
			prod := w.pickProduct(r, true)
			if prod == nil {
				return nil
			}
			sv := w.App.VaultKeeper.GetStableMintVaults(w.Ctx())
			if len(sv) == 0 {
				return nil
			}
			amt := amtAround(r, prod.In.Decimals, 10, 500000)
			return w.TxEvent("stable.deposit", a, &vaulttypes.MsgDepositStableMintRequest{From: a.Bech(), AppId: prod.AppID, ExtendedPairVaultId: prod.ExtID, Amount: amt, StableVaultId: sv[0].Id})
		}},
		{"stable.withdraw", 5, func(w *World, r *Rng) *Event {
			a := w.cdpUser(r)
			prod := w.pickProduct(r, true)
			if prod == nil {
				return nil
			}
			sv := w.App.VaultKeeper.GetStableMintVaults(w.Ctx())
			if len(sv) == 0 {
				return nil
			}
			bal := w.Bal(a.Addr, prod.Out.Denom)
			if !bal.IsPositive() {
				return nil
			}
			amt := bal.MulRaw(r.Range(1, 100)).QuoRaw(100)
			if r.Chance(1, 4) {
				amt = sv[0].AmountOut.AddRaw(r.Range(-1, 1))
			}
			return w.TxEvent("stable.withdraw", a, &vaulttypes.MsgWithdrawStableMintRequest{From: a.Bech(), AppId: prod.AppID, ExtendedPairVaultId: prod.ExtID, Amount: posInt(amt), StableVaultId: sv[0].Id})
		}},
		{"env.unsolicited", 1, func(w *World, r *Rng) *Event {
			if w.Cfg.K("unsolicited") == 0 {
				return nil
			}
			a := w.cdpUser(r)
			as := w.Cdp.Assets[r.Intn(len(w.Cdp.Assets))]
			bal := w.Bal(a.Addr, as.Denom)
			if !bal.IsPositive() {
				return nil
			}
			mod := []string{"vaultV1", "collectorV1", "lockerV1", "auctionV1", "auctionsV2"}[r.Intn(5)]
			amt := sdk.NewInt(r.Range(1, 1000))
			if amt.GT(bal) {
				amt = bal
			}
			ev := w.TxEvent("env.unsolicited", a, banktypes.NewMsgSend(a.Addr, w.ModAddr(mod), sdk.NewCoins(sdk.NewCoin(as.Denom, amt))))
			ev.Fault = "env.unsolicited"
			return ev
		}},
	}
}

func init() {
	adminOps["unsolicited"] = func(w *World, ev *Event) error {
		c, err := sdk.ParseCoinNormalized(ev.Args["coin"])
		if err != nil {
			return err
		}
		to := w.ModAddr(ev.Args["module"])
		if ev.Args["addr"] != "" {
			to, err = sdk.AccAddressFromBech32(ev.Args["addr"])
			if err != nil {
				return err
			}
		}
		if err := w.App.BankKeeper.SendCoins(w.WCtx(), w.Actors[ev.Actor].Addr, to, sdk.NewCoins(c)); err != nil {
			return err
		}
		w.AddUnsolicited(to, c)
		return nil
	}
}
