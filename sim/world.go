package main

import (
	"strings"
	"io"
	"crypto/sha256"
	"encoding/hex"
	"encoding/json"
	"fmt"
	"os"
	"sort"
	"time"

	"cosmossdk.io/math"
	dbm "github.com/cometbft/cometbft-db"
	abci "github.com/cometbft/cometbft/abci/types"
	"github.com/cometbft/cometbft/libs/log"
	tmproto "github.com/cometbft/cometbft/proto/tendermint/types"
	tmtypes "github.com/cometbft/cometbft/types"
	"github.com/cosmos/cosmos-sdk/baseapp"
	"github.com/cosmos/cosmos-sdk/client"
	codectypes "github.com/cosmos/cosmos-sdk/codec/types"
	cryptocodec "github.com/cosmos/cosmos-sdk/crypto/codec"
	"github.com/cosmos/cosmos-sdk/crypto/keys/ed25519"
	"github.com/cosmos/cosmos-sdk/crypto/keys/secp256k1"
	simtestutil "github.com/cosmos/cosmos-sdk/testutil/sims"
	sdk "github.com/cosmos/cosmos-sdk/types"
	"github.com/cosmos/cosmos-sdk/types/tx/signing"
	authsigning "github.com/cosmos/cosmos-sdk/x/auth/signing"
	authtypes "github.com/cosmos/cosmos-sdk/x/auth/types"
	banktypes "github.com/cosmos/cosmos-sdk/x/bank/types"
	minttypes "github.com/cosmos/cosmos-sdk/x/mint/types"
	stakingtypes "github.com/cosmos/cosmos-sdk/x/staking/types"

	chain "github.com/comdex-official/comdex/app"
)

// Config is everything needed to rebuild the initial world of a run. It is recorded in replay files.
type Config struct {
	Scenario string           `json:"scenario"`
	Seed     uint64           `json:"seed"` // run seed; set-up draws from MixSeed(Seed,"setup",0)
	ChainID  string           `json:"chain_id"`
	Knobs    map[string]int64 `json:"knobs"`
}

func (c *Config) K(name string) int64 { return c.Knobs[name] }
func (c *Config) KB(name string) bool { return c.Knobs[name] != 0 }

// Actor is one signing party.
type Actor struct {
	Idx  int
	Name string
	Priv *secp256k1.PrivKey
	Addr sdk.AccAddress
}

func (a *Actor) Bech() string { return a.Addr.String() }

// World is one simulated chain plus the simulator's bookkeeping.
type World struct {
	Cfg     Config
	App     *chain.App
	DB      dbm.DB
	Enc     chain.EncodingConfig
	TxCfg   client.TxConfig
	ValKey  chain.PV
	ValHash []byte
	Hdr     tmproto.Header // header of the block currently being executed
	InBlock bool
	Actors  []*Actor
	Home    string

	Band *BandSim

	// Unsolicited coins sent to custody addresses by the harness (addr string -> coins).
	Unsolicited map[string]sdk.Coins

	Stats *Stats
	// free-form per-scenario state
	S map[string]interface{}

	// scenario data shared between generators and oracles
	Cdp  *CdpPlan
	Dex  *DexPlan
	Lend *LendPlan
	X    map[string]interface{} // scratch space for scenario/oracle code (typed by its owner)

	Liq      *LiqTracker
	Faucet   sdk.Coins // coins minted by the harness faucet (not through any protocol path)
	OnBlock  []func(w *World)
	LiqSeen  bool   // any liquidation / auction / ESM activity happened in this run (set by scenario code)
	Panicked string // set when a Begin/EndBlock panicked (C15 universal oracle)

	LastEndBlock abci.ResponseEndBlock

	// replica support (C16/C20)
	SetupPhase    bool
	RecordDigests bool
	Digests       []string // one line per tx / block: outcome digests compared across replicas
	CurBlock      []*Event // events applied since the current block began (re-delivered after a crash)
	CrashPlan     func(w *World, phase string, idx int) bool
	replaying     bool
	Crashes       map[string]int
}

var simHomeDir string

func simHome() string {
	if simHomeDir == "" {
		base := os.Getenv("TMPDIR")
		if base == "" {
			base = os.TempDir()
		}
		simHomeDir = fmt.Sprintf("%s/comdexsim-%d", base, os.Getpid())
		_ = os.MkdirAll(simHomeDir, 0o755)
	}
	return simHomeDir
}

func cleanupHome() {
	if simHomeDir != "" {
		_ = os.RemoveAll(simHomeDir)
	}
}

var genesisTime = time.Date(2024, 1, 1, 0, 0, 0, 0, time.UTC)

var traceSeq int

func newApp(db dbm.DB, chainID string) *chain.App {
	var tw io.Writer
	if d := os.Getenv("VERIF_TRACE_STORE"); d != "" {
		traceSeq++
		f, _ := os.Create(fmt.Sprintf("%s/app-%d.trace", d, traceSeq))
		tw = f
	}
	return chain.New(log.NewNopLogger(), db, tw, true, map[int64]bool{}, simHome(), 5, chain.MakeEncodingConfig(),
		simtestutil.EmptyAppOptions{}, chain.GetWasmEnabledProposals(), chain.EmptyWasmOpts, baseapp.SetChainID(chainID))
}

func consensusParams() *tmproto.ConsensusParams {
	return &tmproto.ConsensusParams{
		Block:     &tmproto.BlockParams{MaxBytes: 20000000, MaxGas: -1},
		Evidence:  &tmproto.EvidenceParams{MaxAgeNumBlocks: 302400, MaxAgeDuration: 504 * time.Hour, MaxBytes: 10000},
		Validator: &tmproto.ValidatorParams{PubKeyTypes: []string{tmtypes.ABCIPubKeyTypeEd25519}},
	}
}

func mkActor(seed uint64, idx int, name string) *Actor {
	secret := []byte(fmt.Sprintf("comdexsim-actor-%d-%d", seed, idx))
	priv := secp256k1.GenPrivKeyFromSecret(secret)
	return &Actor{Idx: idx, Name: name, Priv: priv, Addr: sdk.AccAddress(priv.PubKey().Address())}
}

// NewWorld builds a fresh chain from genesis for cfg with nActors funded with ucmdx only. Scenario set-up follows.
func NewWorld(cfg Config, nActors int) *World {
	w := &World{Cfg: cfg, Unsolicited: map[string]sdk.Coins{}, Stats: NewStats(), S: map[string]interface{}{}, X: map[string]interface{}{}}
	w.DB = newSimDB()
	w.Enc = chain.MakeEncodingConfig()
	w.TxCfg = w.Enc.TxConfig
	w.App = newApp(w.DB, cfg.ChainID)
	w.ValKey = chain.PV{PrivKey: ed25519.GenPrivKeyFromSecret([]byte(fmt.Sprintf("comdexsim-val-%d", cfg.Seed)))}
	for i := 0; i < nActors; i++ {
		w.Actors = append(w.Actors, mkActor(cfg.Seed, i, fmt.Sprintf("a%d", i)))
	}
	w.SetupPhase = true
	w.initChain()
	w.beginBlock(1, genesisTime.Add(5*time.Second))
	return w
}

func (w *World) genesisState() (chain.GenesisState, *tmtypes.ValidatorSet) {
	codec := w.App.AppCodec()
	gs := chain.NewDefaultGenesisState(codec)
	pubKey, err := w.ValKey.GetPubKey()
	if err != nil {
		panic(err)
	}
	validator := tmtypes.NewValidator(pubKey, 1)
	valSet := tmtypes.NewValidatorSet([]*tmtypes.Validator{validator})

	var genAccs []authtypes.GenesisAccount
	var balances []banktypes.Balance
	for _, a := range w.Actors {
		acc := authtypes.NewBaseAccount(a.Addr, nil, 0, 0)
		genAccs = append(genAccs, acc)
		balances = append(balances, banktypes.Balance{Address: a.Addr.String(), Coins: sdk.NewCoins(sdk.NewCoin("ucmdx", sdk.NewInt(1_000_000_000_000)))})
	}
	authGenesis := authtypes.NewGenesisState(authtypes.DefaultParams(), genAccs)
	gs[authtypes.ModuleName] = codec.MustMarshalJSON(authGenesis)

	bondAmt := sdk.DefaultPowerReduction
	var validators []stakingtypes.Validator
	var delegations []stakingtypes.Delegation
	for _, val := range valSet.Validators {
		pk, err := cryptocodec.FromTmPubKeyInterface(val.PubKey)
		if err != nil {
			panic(err)
		}
		pkAny, err := codectypes.NewAnyWithValue(pk)
		if err != nil {
			panic(err)
		}
		validators = append(validators, stakingtypes.Validator{
			OperatorAddress: sdk.ValAddress(val.Address).String(), ConsensusPubkey: pkAny, Status: stakingtypes.Bonded,
			Tokens: bondAmt, DelegatorShares: math.LegacyOneDec(), UnbondingTime: time.Unix(0, 0).UTC(),
			Commission:        stakingtypes.NewCommission(math.LegacyZeroDec(), math.LegacyZeroDec(), math.LegacyZeroDec()),
			MinSelfDelegation: math.ZeroInt(),
		})
		delegations = append(delegations, stakingtypes.NewDelegation(genAccs[0].GetAddress(), val.Address.Bytes(), math.LegacyOneDec()))
	}
	st := stakingtypes.DefaultParams()
	st.BondDenom = "ucmdx"
	gs[stakingtypes.ModuleName] = codec.MustMarshalJSON(stakingtypes.NewGenesisState(st, validators, delegations))
	balances = append(balances, banktypes.Balance{
		Address: authtypes.NewModuleAddress(stakingtypes.BondedPoolName).String(),
		Coins:   sdk.Coins{sdk.NewCoin("ucmdx", bondAmt)},
	})
	total := sdk.NewCoins()
	for _, b := range balances {
		total = total.Add(b.Coins...)
	}
	gs[banktypes.ModuleName] = codec.MustMarshalJSON(banktypes.NewGenesisState(banktypes.DefaultGenesisState().Params, balances, total, []banktypes.Metadata{}, []banktypes.SendEnabled{}))
	// no inflation: keeps supply arithmetic of ucmdx simple
	mg := minttypes.DefaultGenesisState()
	mg.Params.MintDenom = "ucmdx"
	mg.Params.InflationMax = sdk.ZeroDec()
	mg.Params.InflationMin = sdk.ZeroDec()
	mg.Params.InflationRateChange = sdk.ZeroDec()
	mg.Minter.Inflation = sdk.ZeroDec()
	gs[minttypes.ModuleName] = codec.MustMarshalJSON(mg)
	return gs, valSet
}

func (w *World) initChain() {
	gs, valSet := w.genesisState()
	w.ValHash = valSet.Hash()
	stateBytes, err := json.Marshal(gs)
	if err != nil {
		panic(err)
	}
	w.App.InitChain(abci.RequestInitChain{
		ChainId:         w.Cfg.ChainID,
		Validators:      []abci.ValidatorUpdate{},
		ConsensusParams: consensusParams(),
		AppStateBytes:   stateBytes,
		Time:            genesisTime,
		InitialHeight:   1,
	})
}

func (w *World) mkHeader(height int64, t time.Time) tmproto.Header {
	return tmproto.Header{
		ChainID:            w.Cfg.ChainID,
		Height:             height,
		Time:               t,
		AppHash:            w.App.LastCommitID().Hash,
		ValidatorsHash:     w.ValHash,
		NextValidatorsHash: w.ValHash,
		ProposerAddress:    w.valAddr(),
	}
}

func (w *World) valAddr() []byte {
	pk, _ := w.ValKey.GetPubKey()
	return pk.Address()
}

type panicErr struct{ msg string }

func (p panicErr) Error() string { return p.msg }

func (w *World) beginBlock(height int64, t time.Time) {
	w.Hdr = w.mkHeader(height, t)
	func() {
		defer func() {
			if r := recover(); r != nil {
				w.Panicked = fmt.Sprintf("BeginBlock height=%d: %v", height, r)
			}
		}()
		w.App.BeginBlock(abci.RequestBeginBlock{Header: w.Hdr})
	}()
	w.InBlock = true
	w.Stats.Blocks++
	w.CurBlock = w.CurBlock[:0]
	if w.Panicked == "" {
		for _, f := range w.OnBlock {
			f(w)
		}
	}
	w.maybeCrash("after_begin", 0)
}

// maybeCrash drops the App object (all volatile state) when the crash plan says so, reopens the durable DB and
// re-executes the interrupted block from its beginning, as a restarted node does.
func (w *World) maybeCrash(phase string, idx int) {
	if w.CrashPlan == nil || w.replaying || w.Panicked != "" {
		return
	}
	if !w.CrashPlan(w, phase, idx) {
		return
	}
	w.CrashRestart(phase)
}

func (w *World) CrashRestart(phase string) {
	if w.Crashes == nil {
		w.Crashes = map[string]int{}
	}
	w.Crashes[phase]++
	w.Stats.Fault("node.crash@" + phase)
	w.App = newApp(w.DB, w.Cfg.ChainID)
	if phase == "after_commit" {
		return // nothing in flight; the caller begins the next block on the fresh instance
	}
	w.replaying = true
	defer func() { w.replaying = false }()
	redo := append([]*Event(nil), w.CurBlock...)
	func() {
		defer func() {
			if r := recover(); r != nil {
				w.Panicked = fmt.Sprintf("BeginBlock (after restart) height=%d: %v", w.Hdr.Height, r)
			}
		}()
		w.App.BeginBlock(abci.RequestBeginBlock{Header: w.Hdr})
	}()
	w.CurBlock = w.CurBlock[:0]
	for _, ev := range redo {
		w.Apply(ev)
	}
}

// EndBlockAndBegin finishes the current block, commits, and opens the next one gap seconds later.
func (w *World) EndBlockAndBegin(gap time.Duration) {
	func() {
		defer func() {
			if r := recover(); r != nil {
				w.Panicked = fmt.Sprintf("EndBlock height=%d: %v", w.Hdr.Height, r)
			}
		}()
		w.LastEndBlock = w.App.EndBlock(abci.RequestEndBlock{Height: w.Hdr.Height})
	}()
	if w.Panicked != "" {
		// state of the app after an escaped panic is undefined; the run stops at the C15 oracle.
		return
	}
	if w.CrashPlan != nil && !w.replaying && w.CrashPlan(w, "before_commit", 0) {
		// crash after EndBlock but before Commit: everything of this block is lost and re-executed
		w.CrashRestart("before_commit")
		if w.Panicked != "" {
			return
		}
		w.LastEndBlock = w.App.EndBlock(abci.RequestEndBlock{Height: w.Hdr.Height})
	}
	if w.RecordDigests && !w.replaying {
		w.Digests = append(w.Digests, fmt.Sprintf("endblock h=%d %s", w.Hdr.Height, digestEndBlock(w.LastEndBlock)))
	}
	w.App.Commit()
	if w.RecordDigests && !w.replaying {
		w.Digests = append(w.Digests, fmt.Sprintf("commit h=%d apphash=%X", w.Hdr.Height, w.App.LastCommitID().Hash))
	}
	if w.CrashPlan != nil && !w.replaying && w.CrashPlan(w, "after_commit", 0) {
		w.CrashRestart("after_commit")
	}
	w.Stats.SimSeconds += int64(gap / time.Second)
	w.beginBlock(w.Hdr.Height+1, w.Hdr.Time.Add(gap))
}

func digestEndBlock(r abci.ResponseEndBlock) string {
	h := sha256.New()
	for _, e := range r.Events {
		h.Write([]byte(e.Type))
		for _, a := range e.Attributes {
			h.Write([]byte(a.Key))
			h.Write([]byte{0})
			h.Write([]byte(a.Value))
			h.Write([]byte{1})
		}
	}
	for _, v := range r.ValidatorUpdates {
		h.Write([]byte(v.String()))
	}
	return hex.EncodeToString(h.Sum(nil)[:8])
}

func digestTx(r TxResult) string {
	h := sha256.New()
	for _, e := range r.Events {
		h.Write([]byte(e.Type))
		for _, a := range e.Attributes {
			h.Write([]byte(a.Key))
			h.Write([]byte{0})
			h.Write([]byte(a.Value))
			h.Write([]byte{1})
		}
	}
	l := r.Log
	if i := strings.IndexByte(l, '\n'); i >= 0 {
		l = l[:i] // a recovered panic's log carries a stack trace with addresses
	}
	if r.Code == 11 {
		l = "out of gas"
	}
	lh := sha256.Sum256([]byte(l))
	return fmt.Sprintf("code=%d gas=%d len=%d log=%s ev=%s", r.Code, r.GasUsed, r.Bytes, hex.EncodeToString(lh[:6]), hex.EncodeToString(h.Sum(nil)[:8]))
}

// Ctx returns a context over the deliver state ("between two transactions"). After set-up it is READ-ONLY:
// it is a cache-wrapped branch that is never written back, so generators and oracles cannot perturb the run
// (some keeper "getters" initialise records). During set-up it is the writable deliver context.
func (w *World) Ctx() sdk.Context {
	ctx := w.App.BaseApp.NewContext(false, w.Hdr)
	if w.SetupPhase {
		return ctx
	}
	c, _ := ctx.CacheContext()
	return c
}

// WCtx returns the writable deliver-state context (admin operations, packet delivery, faucet).
func (w *World) WCtx() sdk.Context {
	return w.App.BaseApp.NewContext(false, w.Hdr)
}

func (w *World) Height() int64 { return w.Hdr.Height }

// TxResult is the recorded outcome of a delivered transaction.
type TxResult struct {
	Code    uint32
	Log     string
	GasUsed int64
	Events  []abci.Event
	Bytes   int
}

func (r TxResult) OK() bool { return r.Code == 0 }

// BuildTx signs msgs with the actors' keys (one signature per distinct signer in GetSigners order).
func (w *World) BuildTx(msgs []sdk.Msg, gasLimit uint64, signers []*Actor) ([]byte, error) {
	ctx := w.Ctx()
	txb := w.TxCfg.NewTxBuilder()
	if err := txb.SetMsgs(msgs...); err != nil {
		return nil, err
	}
	txb.SetGasLimit(gasLimit)
	txb.SetFeeAmount(sdk.NewCoins())
	type accInfo struct {
		num, seq uint64
	}
	infos := make([]accInfo, len(signers))
	var sigs []signing.SignatureV2
	for i, s := range signers {
		acc := w.App.AccountKeeper.GetAccount(ctx, s.Addr)
		if acc == nil {
			return nil, fmt.Errorf("signer %s has no account", s.Name)
		}
		infos[i] = accInfo{acc.GetAccountNumber(), acc.GetSequence()}
		sigs = append(sigs, signing.SignatureV2{
			PubKey:   s.Priv.PubKey(),
			Data:     &signing.SingleSignatureData{SignMode: signing.SignMode_SIGN_MODE_DIRECT},
			Sequence: infos[i].seq,
		})
	}
	if err := txb.SetSignatures(sigs...); err != nil {
		return nil, err
	}
	sigs = sigs[:0]
	for i, s := range signers {
		sd := authsigning.SignerData{ChainID: w.Cfg.ChainID, AccountNumber: infos[i].num, Sequence: infos[i].seq, Address: s.Addr.String(), PubKey: s.Priv.PubKey()}
		bz, err := w.TxCfg.SignModeHandler().GetSignBytes(signing.SignMode_SIGN_MODE_DIRECT, sd, txb.GetTx())
		if err != nil {
			return nil, err
		}
		sig, err := s.Priv.Sign(bz)
		if err != nil {
			return nil, err
		}
		sigs = append(sigs, signing.SignatureV2{
			PubKey:   s.Priv.PubKey(),
			Data:     &signing.SingleSignatureData{SignMode: signing.SignMode_SIGN_MODE_DIRECT, Signature: sig},
			Sequence: infos[i].seq,
		})
	}
	if err := txb.SetSignatures(sigs...); err != nil {
		return nil, err
	}
	return w.TxCfg.TxEncoder()(txb.GetTx())
}

// DeliverMsgs delivers one signed tx with the given msgs; signer is the actor for all msgs.
func (w *World) DeliverMsgs(signer *Actor, gasLimit uint64, msgs ...sdk.Msg) TxResult {
	// mempool stub: CheckTx rejects a tx whose messages fail ValidateBasic, so it never reaches a block.
	// (Delivering it anyway would report the block's BeginBlock gas as the tx's GasUsed, an SDK quirk that differs
	// between a restarted and a continuously running node.)
	for _, m := range msgs {
		if err := m.ValidateBasic(); err != nil {
			w.Stats.Probe("mempool.rejected_validate_basic")
			return TxResult{Code: 999997, Log: "checktx: " + err.Error()}
		}
	}
	bz, err := w.BuildTx(msgs, gasLimit, []*Actor{signer})
	if err != nil {
		return TxResult{Code: 999999, Log: "build: " + err.Error()}
	}
	var res abci.ResponseDeliverTx
	func() {
		defer func() {
			if r := recover(); r != nil {
				res = abci.ResponseDeliverTx{Code: 999998, Log: fmt.Sprintf("escaped panic in DeliverTx: %v", r)}
			}
		}()
		res = w.App.DeliverTx(abci.RequestDeliverTx{Tx: bz})
	}()
	w.Stats.Txs++
	if res.Code == 0 {
		w.Stats.TxsOK++
	}
	return TxResult{Code: res.Code, Log: res.Log, GasUsed: res.GasUsed, Events: res.Events, Bytes: len(bz)}
}

// Fund mints coins to addr through the mint module (set-up and faucet only; recorded as an admin event when used in a run).
func (w *World) Fund(addr sdk.AccAddress, coins sdk.Coins) {
	ctx := w.WCtx()
	w.Faucet = w.Faucet.Add(coins...)
	if err := w.App.BankKeeper.MintCoins(ctx, minttypes.ModuleName, coins); err != nil {
		panic(err)
	}
	if err := w.App.BankKeeper.SendCoinsFromModuleToAccount(ctx, minttypes.ModuleName, addr, coins); err != nil {
		panic(err)
	}
}

func (w *World) Bal(addr sdk.AccAddress, denom string) sdk.Int {
	return w.App.BankKeeper.GetBalance(w.Ctx(), addr, denom).Amount
}

func (w *World) ModAddr(name string) sdk.AccAddress { return authtypes.NewModuleAddress(name) }

func (w *World) ModBal(name, denom string) sdk.Int { return w.Bal(w.ModAddr(name), denom) }

func (w *World) Supply(denom string) sdk.Int {
	return w.App.BankKeeper.GetSupply(w.Ctx(), denom).Amount
}

func (w *World) UnsolicitedAmt(addr sdk.AccAddress, denom string) sdk.Int {
	c, ok := w.Unsolicited[addr.String()]
	if !ok {
		return sdk.ZeroInt()
	}
	return c.AmountOf(denom)
}

func (w *World) AddUnsolicited(addr sdk.AccAddress, c sdk.Coin) {
	w.Unsolicited[addr.String()] = w.Unsolicited[addr.String()].Add(c)
}

// sortedKeys returns map keys in sorted order (determinism: never range a map for decisions).
func sortedKeys[V any](m map[string]V) []string {
	ks := make([]string, 0, len(m))
	for k := range m {
		ks = append(ks, k)
	}
	sort.Strings(ks)
	return ks
}

// touchModuleAccounts creates every module account, as on a chain that has been running for a while.
// (A plain bank send to a module address that has no account yet creates a base account there; see DESIGN.md findings.)
func (w *World) touchModuleAccounts() {
	if w.Cfg.K("fresh_module_accounts") != 0 {
		return
	}
	ctx := w.Ctx()
	perms := w.App.ModuleAccountsPermissions()
	for _, name := range sortedKeys(perms) {
		w.App.AccountKeeper.GetModuleAccount(ctx, name)
	}
}
