package main

import (
	esmtypes "github.com/comdex-official/comdex/x/esm/types"
	"encoding/json"
	"fmt"
	"os"
	"sort"
	"strings"
	"time"
)

// Harness executes events for one run and evaluates the property's oracles.
type Harness interface {
	Start(cfg Config)
	World() *World // primary world (generators read it)
	Step(ev *Event, step int) (Result, *Violation)
	Finish() *Violation // end-of-run checks (history oracles)
}

// stdHarness: one world + per-event oracles.
type stdHarness struct {
	spec    *PropSpec
	w       *World
	oracles []Oracle
}

// knownList is loaded once per process (read-only at run time).
var knownList []KnownFinding
var knownHits = map[string]int{}

// filterKnown returns nil (and records the hit) when v is a listed open finding whose oracle can continue.
func filterKnown(v *Violation) *Violation {
	if v == nil {
		return nil
	}
	if kf := matchKnown(knownList, v); kf != nil && v.Continue {
		knownHits[kf.Property+" "+kf.What]++
		return nil
	}
	return v
}

func buildWorld(cfg Config) *World {
	sc := scenarios[cfg.Scenario]
	if sc == nil {
		panic("unknown scenario " + cfg.Scenario)
	}
	w := NewWorld(cfg, sc.NActors)
	sc.Setup(w)
	// commit everything the set-up wrote directly into the deliver state, so that a crash/restart replica and an
	// export see it as durable state
	// configured admin of the emergency controls: the last actor
	w.App.EsmKeeper.SetParams(w.WCtx(), esmtypes.NewParams([]string{w.Actors[len(w.Actors)-1].Bech()}))
	if w.Panicked == "" {
		w.EndBlockAndBegin(5 * time.Second)
	}
	w.SetupPhase = false
	return w
}

func (h *stdHarness) Start(cfg Config) {
	h.w = buildWorld(cfg)
	h.oracles = h.spec.Oracles(h.w)
}
func (h *stdHarness) World() *World { return h.w }
func (h *stdHarness) Step(ev *Event, step int) (Result, *Violation) {
	for _, o := range h.oracles {
		o.Before(h.w, ev)
	}
	res := h.w.Apply(ev)
	debugAuc(h.w, ev, res)
	debugEsm(h.w, ev, res)
	if h.w.Panicked != "" {
		if h.spec.PanicIsViolation {
			return res, &Violation{Property: h.spec.ID, OracleID: strings.ToLower(h.spec.ID) + ".no_panic", Signature: panicSig(h.w.Panicked), Detail: h.w.Panicked, Step: step}
		}
		return res, nil
	}
	for _, o := range h.oracles {
		h.w.Stats.OracleEval++
		if v := filterKnown(safeAfter(h.spec.ID, o, h.w, ev, res)); v != nil {
			v.Step = step
			return res, v
		}
	}
	return res, nil
}

// safeAfter: oracles only call the public getters / query paths a user relies on; if one of those panics on the state the
// chain is in, that is reported (as this property's violation) instead of crashing the worker.
func safeAfter(prop string, o Oracle, w *World, ev *Event, res Result) (v *Violation) {
	defer func() {
		if r := recover(); r != nil {
			v = &Violation{Property: prop, OracleID: strings.ToLower(prop) + ".query_panicked", Signature: panicSig(fmt.Sprint(r)),
				Detail: fmt.Sprintf("a keeper query used by oracle %s panicked after %s: %v", o.ID(), ev.Tag, r)}
		}
	}()
	return o.After(w, ev, res)
}
func (h *stdHarness) Finish() *Violation { return nil }

func panicSig(s string) string {
	// keep the panic message's first 80 chars without numbers as discriminator
	out := make([]rune, 0, 80)
	for _, c := range s {
		if c >= '0' && c <= '9' {
			continue
		}
		out = append(out, c)
		if len(out) >= 80 {
			break
		}
	}
	return string(out)
}

type Budget struct {
	Runs      int
	MaxEvents int
}

// PropSpec describes how one property is checked.
type PropSpec struct {
	ID         string
	Level      string
	Scenarios  []string // scenario chosen per run (uniformly) from this list
	Oracles    func(w *World) []Oracle
	NewHarness func(spec *PropSpec) Harness // nil = stdHarness
	Quick      Budget
	Thorough   Budget
	Essential  []string // probes that must all be non-zero in a run for it to count as non-trivial
	EssentialAny [][]string // alternative: non-trivial if every probe of at least one list is non-zero (multi-scenario properties)
	BatchProbe []string // probes that must be non-zero over the batch, else the batch is vacuous (exit 2)
	Rule       string
	Assume     []string
	TweakCfg   func(r *Rng, cfg *Config) // property-specific knob overrides after the scenario draw
	PanicIsViolation bool                 // an escaped panic in Begin/EndBlock or a packet callback is a violation of this property
}

var props = map[string]*PropSpec{}

func (p *PropSpec) harness() Harness {
	if p.NewHarness != nil {
		return p.NewHarness(p)
	}
	return &stdHarness{spec: p}
}

// RunOutcome is the result of one simulated run.
type RunOutcome struct {
	RunSeed    uint64     `json:"run_seed"`
	Cfg        Config     `json:"config"`
	Events     []*Event   `json:"events,omitempty"`
	NEvents    int        `json:"n_events"`
	Violation  *Violation `json:"violation,omitempty"`
	Known      string     `json:"known,omitempty"`
	TraceHash  string     `json:"trace_hash"`
	Nontrivial bool       `json:"nontrivial"`
	Panicked   string     `json:"panicked,omitempty"`
	stats      *Stats
}

func drawConfig(spec *PropSpec, runSeed uint64) (Config, *Rng) {
	r := NewRng(runSeed)
	scName := spec.Scenarios[r.Intn(len(spec.Scenarios))]
	cfg := Config{Scenario: scName, Seed: runSeed, Knobs: map[string]int64{}}
	cfg.ChainID = []string{"comdex-1", "comdex-test3", "sim-1"}[r.Intn(3)]
	scenarios[scName].Draw(r, &cfg)
	if spec.TweakCfg != nil {
		spec.TweakCfg(r, &cfg)
	}
	return cfg, r
}

// RunOne generates and executes one run.
func RunOne(spec *PropSpec, runSeed uint64, maxEvents int, keepEvents bool) *RunOutcome {
	cfg, r := drawConfig(spec, runSeed)
	out := &RunOutcome{RunSeed: runSeed, Cfg: cfg}
	h := spec.harness()
	h.Start(cfg)
	w := h.World()
	sched := NewSched(w, r, scenarios[cfg.Scenario])
	var th traceHasher
	var events []*Event
	nEv := maxEvents/2 + r.Intn(maxEvents/2+1)
	for step := 0; step < nEv; step++ {
		if w.Panicked != "" {
			break
		}
		ev := sched.Next()
		events = append(events, ev)
		res, v := h.Step(ev, step)
		th.add(evSummary(ev, res))
		sched.Observe(ev, res)
		recordAbstract(w, ev, res)
		if v != nil {
			out.Violation = v
			break
		}
	}
	if out.Violation == nil && w.Panicked == "" {
		if v := h.Finish(); v != nil {
			v.Step = len(events) - 1
			out.Violation = v
		}
	}
	out.Panicked = w.Panicked
	if w.Panicked != "" {
		w.Stats.Probe("run.escaped_panic")
	}
	out.NEvents = len(events)
	out.TraceHash = th.hex()
	out.stats = w.Stats
	out.Nontrivial = true
	for _, p := range spec.Essential {
		if w.Stats.Probes[p] == 0 {
			out.Nontrivial = false
		}
	}
	if len(spec.EssentialAny) > 0 {
		out.Nontrivial = false
		for _, alt := range spec.EssentialAny {
			ok := true
			for _, p := range alt {
				if w.Stats.Probes[p] == 0 {
					ok = false
				}
			}
			if ok {
				out.Nontrivial = true
			}
		}
	}
	if keepEvents || out.Violation != nil {
		out.Events = events
	}
	return out
}

// ReplayRun executes recorded events verbatim; returns the first violation.
func ReplayRun(spec *PropSpec, cfg Config, events []*Event) (*Violation, *World) {
	h := spec.harness()
	h.Start(cfg)
	w := h.World()
	for step, ev := range events {
		if w.Panicked != "" {
			break
		}
		ev.msgs = nil
		_, v := h.Step(ev, step)
		if v != nil {
			return v, w
		}
	}
	if w.Panicked == "" {
		if v := h.Finish(); v != nil {
			return v, w
		}
	}
	return nil, w
}

// ReplayFile is what is written for a violation and read by --replay.
type ReplayFile struct {
	Property  string     `json:"property"`
	VerifSeed uint64     `json:"verif_seed"`
	RunSeed   uint64     `json:"run_seed"`
	Config    Config     `json:"config"`
	Events    []*Event   `json:"events"`
	Violation *Violation `json:"violation"`
	Minimised bool       `json:"minimised"`
	OrigLen   int        `json:"original_events"`
	Tier      string     `json:"tier"`
}

func writeReplay(dir string, rf *ReplayFile) string {
	_ = os.MkdirAll(dir, 0o755)
	path := fmt.Sprintf("%s/%s-%d.json", dir, rf.Property, rf.RunSeed)
	bz, _ := json.MarshalIndent(rf, "", " ")
	_ = os.WriteFile(path, bz, 0o644)
	return path
}

// minimise shrinks events while the same violation key persists (ddmin over events), bounded by deadline.
func minimise(spec *PropSpec, cfg Config, events []*Event, key string, deadline time.Time) []*Event {
	same := func(cand []*Event) bool {
		v, _ := ReplayRun(spec, cfg, cand)
		return v != nil && v.Key() == key
	}
	cur := events
	// chunked removal with decreasing chunk size; never remove the last event first pass
	chunk := len(cur) / 2
	for chunk >= 1 && time.Now().Before(deadline) {
		removed := false
		for start := 0; start < len(cur) && time.Now().Before(deadline); {
			end := start + chunk
			if end > len(cur) {
				end = len(cur)
			}
			cand := append(append([]*Event{}, cur[:start]...), cur[end:]...)
			if len(cand) > 0 && same(cand) {
				cur = cand
				removed = true
			} else {
				start = end
			}
		}
		if !removed || chunk == 1 {
			chunk /= 2
		}
	}
	// shrink block events (fewer blocks / smaller gaps)
	for i := range cur {
		if !time.Now().Before(deadline) {
			break
		}
		ev := cur[i]
		if ev.Kind == "block" && (ev.N > 1 || ev.GapS > 6) {
			orig := *ev
			ev.N = 1
			if same(cur) {
				continue
			}
			*ev = orig
			if ev.GapS > 6 {
				ev.GapS = 6
				if same(cur) {
					continue
				}
				*ev = orig
			}
		}
	}
	return cur
}

// KnownFinding entry of /verif/known_findings.json
type KnownFinding struct {
	Status   string `json:"status"` // open | fixed
	Property string `json:"property"`
	Match    string `json:"match"` // prefix of "oracle_id|signature"
	What     string `json:"what"`
	Commit   string `json:"commit,omitempty"`
}

func loadKnown(path string) []KnownFinding {
	bz, err := os.ReadFile(path)
	if err != nil {
		return nil
	}
	var k []KnownFinding
	if err := json.Unmarshal(bz, &k); err != nil {
		fmt.Fprintf(os.Stderr, "known_findings.json unreadable: %v\n", err)
		os.Exit(2)
	}
	return k
}

func matchKnown(known []KnownFinding, v *Violation) *KnownFinding {
	k := v.OracleID + "|" + v.Signature
	for i := range known {
		kf := &known[i]
		if kf.Status == "open" && kf.Property == v.Property && strings.HasPrefix(k, kf.Match) {
			return kf
		}
	}
	return nil
}

// WorkerResult is what a worker process hands back.
type WorkerResult struct {
	Runs        int               `json:"runs"`
	Stats       StatsJSON         `json:"stats"`
	Hashes      []string          `json:"hashes"`     // trace hashes of non-trivial runs
	AllHashes   []string          `json:"all_hashes"` // for determinism self-test
	Violations  []string          `json:"violations"` // replay paths
	VioLines    []string          `json:"vio_lines"`
	Known       map[string]int    `json:"known"`
	Samples     []json.RawMessage `json:"samples"`
	Panicked    int               `json:"panicked"`
	WallS       float64           `json:"wall_s"`
	EventsTotal int64             `json:"events_total"`
}

func runWorker(spec *PropSpec, tier string, verifSeed uint64, from, to int, replayDir, knownPath string) *WorkerResult {
	budget := spec.Quick
	if tier == "thorough" {
		budget = spec.Thorough
	}
	known := loadKnown(knownPath)
	knownList = known
	start := time.Now()
	wr := &WorkerResult{Known: map[string]int{}}
	agg := NewStats()
	for i := from; i < to; i++ {
		runSeed := MixSeed(verifSeed, spec.ID, uint64(i))
		out := RunOne(spec, runSeed, budget.MaxEvents, len(wr.Samples) < 2 && i%7 == 0)
		wr.Runs++
		wr.EventsTotal += int64(out.NEvents)
		agg.Merge(out.stats)
		wr.AllHashes = append(wr.AllHashes, fmt.Sprintf("%d:%s", runSeed, out.TraceHash))
		if out.Panicked != "" {
			wr.Panicked++
		}
		if out.Violation != nil && os.Getenv("VERIF_SELFTEST") != "" {
			out.Violation = nil
		}
		if out.Violation != nil {
			if kf := matchKnown(known, out.Violation); kf != nil {
				wr.Known[kf.Property+" "+kf.What]++
			} else {
				key := out.Violation.Key()
				ev := out.Events
				orig := len(ev)
				min := minimise(spec, out.Cfg, ev, key, time.Now().Add(45*time.Second))
				v2, _ := ReplayRun(spec, out.Cfg, min)
				if v2 == nil || v2.Key() != key {
					min = ev
					v2 = out.Violation
				}
				path := writeReplay(replayDir, &ReplayFile{Property: spec.ID, VerifSeed: verifSeed, RunSeed: runSeed, Config: out.Cfg, Events: min, Violation: v2, Minimised: len(min) < orig, OrigLen: orig, Tier: tier})
				wr.Violations = append(wr.Violations, path)
				wr.VioLines = append(wr.VioLines, fmt.Sprintf("VIOLATION property=%s replay=%s", spec.ID, path))
				fmt.Fprintf(os.Stderr, "violation %s [%s] %s: %s\n", spec.ID, v2.OracleID, v2.Signature, v2.Detail)
				break // one minimised violation per worker chunk is enough; the batch is failed anyway
			}
		}
		if out.Nontrivial && out.Violation == nil {
			wr.Hashes = append(wr.Hashes, out.TraceHash)
		}
		if out.Events != nil && out.Violation == nil && len(wr.Samples) < 2 {
			wr.Samples = append(wr.Samples, sampleOf(out))
		}
	}
	for k, v := range knownHits {
		wr.Known[k] += v
	}
	wr.Stats = agg.ToJSON()
	wr.WallS = time.Since(start).Seconds()
	return wr
}

func sampleOf(out *RunOutcome) json.RawMessage {
	type se struct {
		Kind string `json:"kind"`
		Tag  string `json:"tag,omitempty"`
		Msg  string `json:"msg,omitempty"`
	}
	var evs []se
	for i, e := range out.Events {
		if i >= 25 {
			break
		}
		s := se{Kind: e.Kind, Tag: e.Tag}
		if len(e.Msgs) > 0 {
			m := string(e.Msgs[0])
			if len(m) > 220 {
				m = m[:220] + "…"
			}
			s.Msg = m
		}
		if e.Kind == "block" {
			s.Msg = fmt.Sprintf("n=%d gap=%ds", e.N, e.GapS)
		}
		if e.Kind == "band_resp" {
			s.Msg = fmt.Sprintf("req=%d rates=%v", e.ReqID, e.Rates)
		}
		evs = append(evs, s)
	}
	bz, _ := json.Marshal(map[string]interface{}{"run_seed": out.RunSeed, "scenario": out.Cfg.Scenario, "chain_id": out.Cfg.ChainID, "knobs": out.Cfg.Knobs, "n_events": out.NEvents, "first_events": evs})
	return bz
}

func sortedProbeKeys(m map[string]int64) []string {
	ks := make([]string, 0, len(m))
	for k := range m {
		ks = append(ks, k)
	}
	sort.Strings(ks)
	return ks
}

// recordAbstract feeds the evidence's reach measures: distinct abstract states = distinct tuples
// (scenario, #open vaults, #locked vaults, #live auctions, #lend positions, #borrows, #live orders bucket, any price inactive,
// any breaker on), sampled at block events; distinct transitions = distinct (event tag, outcome class) pairs.
func recordAbstract(w *World, ev *Event, res Result) {
	if w.Panicked != "" {
		return
	}
	cls := "ok"
	switch ev.Kind {
	case "tx":
		if !res.Tx.OK() {
			cls = fmt.Sprintf("fail%d", res.Tx.Code)
		}
	default:
		if res.Err != nil {
			cls = "err"
		}
	}
	tag := ev.Tag
	if tag == "" {
		tag = ev.Kind
	}
	w.Stats.Transition(tag + ":" + cls)
	if ev.Kind != "block" {
		return
	}
	ctx := w.Ctx()
	bucket := func(n int) int {
		switch {
		case n <= 3:
			return n
		case n <= 7:
			return 5
		case n <= 15:
			return 10
		}
		return 20
	}
	orders := 0
	if apps, ok := w.App.AssetKeeper.GetApps(ctx); ok {
		for _, a := range apps {
			orders += len(w.App.LiquidityKeeper.GetAllOrders(ctx, a.Id))
		}
	}
	inactive, breaker := 0, 0
	for _, t := range w.App.MarketKeeper.GetAllTwa(ctx) {
		if !t.IsPriceActive {
			inactive = 1
		}
	}
	for _, k := range w.App.EsmKeeper.GetAllKillSwitchData(ctx) {
		if k.BreakerEnable {
			breaker = 1
		}
	}
	borrows, _ := w.App.LendKeeper.GetBorrows(ctx)
	w.Stats.State(fmt.Sprintf("%s|v%d|l%d|a%d|le%d|b%d|o%d|p%d|k%d", w.Cfg.Scenario, bucket(len(w.App.VaultKeeper.GetVaults(ctx))), bucket(len(w.App.NewliqKeeper.GetLockedVaults(ctx))),
		bucket(len(w.App.NewaucKeeper.GetAuctions(ctx))), bucket(len(w.App.LendKeeper.GetAllLend(ctx))), bucket(len(borrows)), bucket(orders), inactive, breaker))
}
