package main

func init() {
	dexAssume := []string{
		"CometBFT, IBC core and wasm VM are stubbed by the simulator",
		"apps, assets and per-app liquidity parameters are applied through keeper entry points; pairs, pools, orders, requests, farming and gauges go through signed transactions",
	}
	props["C04"] = &PropSpec{
		ID: "C04", Level: "exploration", Scenarios: []string{"dex"},
		Oracles:    func(w *World) []Oracle { return []Oracle{newDexOracle(w, "C04")} },
		Quick:      Budget{Runs: 320, MaxEvents: 150},
		Thorough:   Budget{Runs: 3200, MaxEvents: 300},
		Essential:  []string{"c04.checked_with_pending_requests", "c04.checked_with_live_orders", "c04.checked_with_farmed_coins"},
		BatchProbe: []string{"c04.checked_with_pending_requests", "c04.checked_with_live_orders", "c04.checked_with_queued_farmers", "c04.checked_with_active_farmers", "c04.supply_change_explained", "dex.block_with_requests"},
		TweakCfg: func(r *Rng, cfg *Config) {
			if cfg.Knobs["jump_w"] == 0 {
				cfg.Knobs["jump_w"] = 2
			}
			cfg.Knobs["farm_boost"] = 1
			if r.Chance(2, 3) && cfg.Knobs["unsolicited"] == 0 {
				cfg.Knobs["unsolicited"] = 1
			}
		},
		Rule:   "one case = one seeded simulated run of the whole app: swarm configuration (2-3 apps so that app id != pair id != pool id, optional second liquidity app sharing the global escrow, 3-4 assets, 1-3 pairs, basic+ranged pools, batch size 1-3, tick precision 2-4, fee rates) + PRNG-scheduled deposits, withdrawals, limit/market/MM orders, cancels, farm/unfarm, deposit-and-farm, unfarm-and-withdraw, run-time pool creation, unsolicited sends to escrow/reserve/module addresses, block boundaries and clock jumps; distinct = distinct digest of the (event, outcome) sequence; non-trivial = the custody oracle was evaluated with pending requests, with live orders and with farmed pool coins",
		Assume: dexAssume,
	}
	props["C05"] = &PropSpec{
		ID: "C05", Level: "exploration", Scenarios: []string{"dex"},
		Oracles:    func(w *World) []Oracle { return []Oracle{newDexOracle(w, "C05")} },
		Quick:      Budget{Runs: 320, MaxEvents: 150},
		Thorough:   Budget{Runs: 3200, MaxEvents: 300},
		Essential:  []string{"c05.batch_checked", "c05.order_checked"},
		BatchProbe: []string{"c05.batch_checked", "c05.batch_user_vs_pool", "c05.batch_with_several_user_orders", "c05.order_with_several_fills", "c05.multi_price_batch", "c05.dust_positive", "c05.carried_buy_order_filled_again", "c05.carried_buy_fill_cut_by_offer_coin"},
		TweakCfg: func(r *Rng, cfg *Config) {
			cfg.Knobs["order_boost"] = 2
			cfg.Knobs["oog"] = 0
			// half of the runs have pure order-book pairs, where orders rest and are filled piece by piece
			cfg.Knobs["bare_pairs"] = []int64{0, 0, 1, 2, 2, 3}[r.Intn(6)]
			cfg.Knobs["ladder_boost"] = int64(r.Intn(4))
		},
		Rule:   "system-level: one case = one seeded simulated run in which many limit/market/MM orders (on and off tick, at the price limits, tiny and large, lifespans spanning several batches) meet basic and ranged pools; every individual fill of every executed batch is observed through the verif fill hook and checked per batch and pair with exact integer/rational arithmetic; distinct = distinct digest of the (event, outcome) sequence; non-trivial = at least one batch with fills was checked including a per-order limit check against the stored order",
		Assume: append([]string{"the statement's quantifier over all order books is explored through books that arise in simulated markets, not enumerated"}, dexAssume...),
	}
	props["C06"] = &PropSpec{
		ID: "C06", Level: "exploration", Scenarios: []string{"dex"},
		Oracles:    func(w *World) []Oracle { return []Oracle{newDexOracle(w, "C06")} },
		Quick:      Budget{Runs: 320, MaxEvents: 150},
		Thorough:   Budget{Runs: 3200, MaxEvents: 300},
		Essential:  []string{"c06.deposit_checked", "c06.withdraw_checked"},
		BatchProbe: []string{"c06.pending_deposit_checked", "c06.pending_withdraw_checked", "c06.deposit_checked", "c06.withdraw_checked", "c06.deposit_checked_ranged", "c06.withdraw_checked_ranged", "c06.withdraw_checked_with_fee", "c06.deposit_partially_accepted", "c06.ranged_price_checked", "c06.immediate_deposit_checked", "c06.immediate_withdraw_checked", "c06.last_share_redeemed"},
		TweakCfg: func(r *Rng, cfg *Config) {
			cfg.Knobs["lp_boost"] = 2
			if cfg.Knobs["n_ranged"] == 0 && r.Chance(2, 3) {
				cfg.Knobs["n_ranged"] = 1
			}
			cfg.Knobs["mag"] = []int64{9, 12, 18, 30, 30}[r.Intn(5)]
		},
		Rule:   "system-level: one case = one seeded simulated run with LPs depositing/withdrawing at arbitrary ratios and magnitudes (funding class 10^9..10^30) against basic and ranged pools while swaps move the reserves in the same batches; every executed request is checked against reserves and share supply reconstructed inside the batch (pool fills from the fill hook, then requests in execution order) in exact rationals; distinct = distinct digest of the (event, outcome) sequence; non-trivial = at least one executed deposit and one executed withdrawal were checked",
		Assume: append([]string{"ranged pool price is the module's published pool price; a value outside the range by < 1e-15 relative is counted as rounding band, not reported"}, dexAssume...),
	}
	props["C07"] = &PropSpec{
		ID: "C07", Level: "exploration", Scenarios: []string{"dex"},
		Oracles:    func(w *World) []Oracle { return []Oracle{newDexOracle(w, "C07")} },
		Quick:      Budget{Runs: 320, MaxEvents: 150},
		Thorough:   Budget{Runs: 3200, MaxEvents: 300},
		Essential:  []string{"c07.placement_checked", "c07.terminated_in_block"},
		BatchProbe: []string{"c07.placement_checked", "c07.placement_with_fee_reserve", "c07.app_id_differs_from_pair_id", "c07.end.expired", "c07.end.completed", "c07.end.cancelled", "c07.end.partially_filled", "c07.end.mm", "c07.mm_cancel_with_live_orders", "c07.mm_replace_with_live_predecessors", "c07.cancel_of_older_batch_attempted", "c07.escrow_exact_with_live_orders", "c07.block_flows_checked"},
		TweakCfg: func(r *Rng, cfg *Config) {
			cfg.Knobs["order_boost"] = 2
			cfg.Knobs["bare_pairs"] = []int64{0, 0, 1, 2, 3}[r.Intn(5)]
			cfg.Knobs["ladder_boost"] = int64(r.Intn(3))
		},
		Rule:   "one case = one seeded simulated run with per-order tracking from placement to termination for limit, market and MM orders, every ending (completed, expired, cancelled, cancel-all, MM replace/cancel, too-small sweep), swap fee rate in {0, 0.3%, 3%} and app ids that differ from pair ids; distinct = distinct digest of the (event, outcome) sequence; non-trivial = at least one placement and one in-block termination were checked from balance deltas",
		Assume: append([]string{"fee amounts are accepted under either truncation convention (floor or ceil of rate x amount)"}, dexAssume...),
	}
	props["C19"] = &PropSpec{
		ID: "C19", Level: "exploration", Scenarios: []string{"dex", "dex", "cdp"},
		Oracles: func(w *World) []Oracle {
			if w.Dex == nil {
				return []Oracle{&c19ExtOracle{}}
			}
			return []Oracle{newDexOracle(w, "C19")}
		},
		Quick:      Budget{Runs: 320, MaxEvents: 150},
		Thorough:   Budget{Runs: 3200, MaxEvents: 300},
		Essential:  []string{"c19.epoch_checked"},
		BatchProbe: []string{"c19.gauge_created", "c19.split_checked_with_remainder", "c19.epoch_checked", "c19.epoch_checked_with_remainder", "c19.epoch_paid_something", "c19.farmer_payout_checked", "c19.epoch_with_several_farmers", "c19.master_gauge_per_farmer_bound", "c19.master_gauge_with_several_farmers", "c19.custody_checked_with_active_gauges", "c19.ext_program_custody_checked", "c19.ext_program_paid_out", "c19.ext_several_programs"},
		TweakCfg: func(r *Rng, cfg *Config) {
			if cfg.Scenario == "cdp" {
				cfg.Knobs["ext_rewards_w"] = 1
				cfg.Knobs["aux_locker"] = 1
				return
			}
			cfg.Knobs["gauge_w"] = 6
			cfg.Knobs["jump_w"] = 12
			cfg.Knobs["n_gauges"] = 2
			cfg.Knobs["farm_boost"] = 2
			cfg.Knobs["max_lifespan_s"] = 86400
		},
		Rule:   "one case = one seeded simulated run with liquidity gauges (deposit D, E epochs, D%E!=0 emphasised, D==E, E==1, master-pool flag) created by MsgCreateGauge, farmers joining/leaving/queued, oracle price moves and clock jumps of 12-80 h so that epochs trigger and are skipped; distinct = distinct digest of the (event, outcome) sequence; non-trivial = at least one triggered epoch of a funded gauge was checked",
		Assume: append([]string{"dex runs carry liquidity and swap-fee gauges; a third of the runs are cdp runs with locker and vault external reward programmes (custody >= recorded undistributed remainder, remainder within [0, deposit]); lend and stable-mint external programmes are not exercised", "per-farmer share bound is evaluated for gauges funded in a denom that is in no pair; for master-pool gauges with the implicit child list (every other enabled pool of the app) the bound is min(value in the master pool, sum of values in the child pools) over the sum of the same quantity, values re-computed from reserves, share supply and the market module's price with +-1 unit brackets; master gauges with an explicit child list are checked for epoch cap, cumulative bound and custody only"}, dexAssume...),
	}
}
