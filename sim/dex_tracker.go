package main

import (
	"runtime/debug"
	"os"
	"fmt"
	"math/big"
	"sort"
	"strconv"
	"strings"

	abci "github.com/cometbft/cometbft/abci/types"
	sdk "github.com/cosmos/cosmos-sdk/types"

	"github.com/comdex-official/comdex/x/liquidity/amm"
	liqtypes "github.com/comdex-official/comdex/x/liquidity/types"
	rewardstypes "github.com/comdex-official/comdex/x/rewards/types"
)

type bigInt = big.Int

var bigOne = big.NewInt(1)

type okey struct{ app, pair, id uint64 }
type pkey struct{ app, pool uint64 }

func (k okey) String() string { return fmt.Sprintf("%d/%d/%d", k.app, k.pair, k.id) }

// dexFill is one individual fill reported by the matching engine (hook amm.VerifFillHook).
type dexFill struct {
	user        bool
	orderID     uint64
	orderer     string
	poolID      uint64
	buy         bool
	offerDenom  string
	demandDenom string
	amt, paid   sdk.Int
	recv        sdk.Int
	price       sdk.Dec
	obj         amm.Order // identity of the engine's order object (groups the fills of one pool order)
	oPrice      sdk.Dec   // the order's own limit price, amount and offer as given to the engine
	oAmount     sdk.Int
	oOffer      sdk.Int
}

type poolState struct {
	pool       liqtypes.Pool
	pair       liqtypes.Pair
	rx, ry, ps sdk.Int
}

type dexSnap struct {
	h          int64
	pools      map[pkey]*poolState
	poolKeys   []pkey
	pairs      map[string]liqtypes.Pair // "denomA|denomB" (sorted) -> pair
	orders     map[okey]liqtypes.Order  // live orders
	bals       map[string]sdk.Coins     // user balances
	gauges     map[uint64]rewardstypes.Gauge
	rewardsBal sdk.Coins
	twa        map[uint64]string // C19: oracle price record per asset ("twa/active") as it stood when the snapshot was taken
}

// dexTracker observes every block of a dex run (also inside multi-block events) and evaluates the block-level parts of
// C04..C07 and C19 for the property being checked. Violations are queued and reported by the property's oracle.
type dexTracker struct {
	prop  string
	fills []dexFill
	snap  *dexSnap
	vio   []*Violation

	// C07 placement ledger: swap-fee reserve observed when the order was placed
	reserve map[okey]sdk.Int
	// C04 supply ledger: last observed pool coin supply
	supply map[pkey]sdk.Int
	// C19
	gaugeSeen map[uint64]bool
}

func newDexTracker(w *World) *dexTracker {
	t := &dexTracker{reserve: map[okey]sdk.Int{}, supply: map[pkey]sdk.Int{}, gaugeSeen: map[uint64]bool{}}
	// the hook is process-global: always point it at the tracker of the world built last
	amm.VerifFillHook = func(order amm.Order, amt sdk.Int, price sdk.Dec, paid, received sdk.Int) {
		f := dexFill{amt: amt, price: price, paid: paid, recv: received, obj: order, buy: order.GetDirection() == amm.Buy,
			oPrice: order.GetPrice(), oAmount: order.GetAmount(), oOffer: order.GetOfferCoinAmount()}
		switch o := order.(type) {
		case *liqtypes.UserOrder:
			f.user, f.orderID, f.orderer = true, o.OrderID, o.Orderer.String()
			f.offerDenom, f.demandDenom = o.OfferCoinDenom, o.DemandCoinDenom
		case *liqtypes.PoolOrder:
			f.poolID = o.PoolID
			f.offerDenom, f.demandDenom = o.OfferCoinDenom, o.DemandCoinDenom
		default:
			return
		}
		if os.Getenv("VERIF_DEBUG_FILLS") != "" {
			fmt.Printf("FILL user=%v id=%d pool=%d buy=%v amt=%s price=%s paid=%s recv=%s orderAmt=%s\n", f.user, f.orderID, f.poolID, f.buy, amt, price, paid, received, f.oAmount)
			if os.Getenv("VERIF_DEBUG_FILLS") == "2" {
				debug.PrintStack()
			}
		}
		t.fills = append(t.fills, f)
	}
	return t
}

func (t *dexTracker) report(prop, oracle, sig, detail string) {
	if prop != t.prop {
		return
	}
	t.vio = append(t.vio, &Violation{Property: prop, OracleID: oracle, Signature: sig, Detail: detail})
}

func pairDenomKey(a, b string) string {
	if a > b {
		a, b = b, a
	}
	return a + "|" + b
}

func (w *World) poolBalances(pl liqtypes.Pool, pair liqtypes.Pair) (rx, ry, ps sdk.Int) {
	res := pl.GetReserveAddress()
	return w.Bal(res, pair.QuoteCoinDenom), w.Bal(res, pair.BaseCoinDenom), w.Supply(pl.PoolCoinDenom)
}

func (t *dexTracker) snapshot(w *World) {
	ctx := w.Ctx()
	s := &dexSnap{h: w.Height(), pools: map[pkey]*poolState{}, pairs: map[string]liqtypes.Pair{}, orders: map[okey]liqtypes.Order{},
		bals: map[string]sdk.Coins{}, gauges: map[uint64]rewardstypes.Gauge{}}
	lk := w.App.LiquidityKeeper
	for _, app := range w.Dex.AppIDs {
		for _, pr := range lk.GetAllPairs(ctx, app) {
			s.pairs[pairDenomKey(pr.BaseCoinDenom, pr.QuoteCoinDenom)] = pr
		}
		for _, pl := range lk.GetAllPools(ctx, app) {
			pair, _ := lk.GetPair(ctx, app, pl.PairId)
			rx, ry, ps := w.poolBalances(pl, pair)
			k := pkey{app, pl.Id}
			s.pools[k] = &poolState{pool: pl, pair: pair, rx: rx, ry: ry, ps: ps}
			s.poolKeys = append(s.poolKeys, k)
		}
		if t.prop == "C05" || t.prop == "C07" {
			for _, o := range lk.GetAllOrders(ctx, app) {
				if liveStatus(o.Status) {
					s.orders[okey{app, o.PairId, o.Id}] = o
				}
			}
		}
	}
	if t.prop == "C07" || t.prop == "C19" {
		for _, i := range w.Dex.Users {
			a := w.Actors[i]
			s.bals[a.Bech()] = w.App.BankKeeper.GetAllBalances(ctx, a.Addr)
		}
		s.rewardsBal = w.App.BankKeeper.GetAllBalances(ctx, w.ModAddr(rewardstypes.ModuleName))
	}
	if t.prop == "C19" || t.prop == "C07" {
		for _, g := range w.App.Rewardskeeper.GetAllGauges(ctx) {
			s.gauges[g.Id] = g
		}
	}
	if t.prop == "C19" {
		s.twa = map[uint64]string{}
		for _, a := range w.Dex.Assets {
			if tw, ok := w.App.MarketKeeper.GetTwa(ctx, a.ID); ok {
				s.twa[a.ID] = fmt.Sprintf("%d/%v", tw.Twa, tw.IsPriceActive)
			}
		}
	}
	t.snap = s
}

// onBlock runs right after every BeginBlock: evaluates the block that just ended against the snapshot taken before its
// EndBlock, then snapshots the new state (which is the pre-state of the next EndBlock unless transactions follow; the
// oracle refreshes the snapshot in Before() of every block event).
func (t *dexTracker) onBlock(w *World) {
	if t.prop == "" {
		t.fills = t.fills[:0]
		return
	}
	if t.snap != nil && w.Panicked == "" {
		t.harvest(w)
	}
	t.fills = t.fills[:0]
	t.snapshot(w)
}

func evAttrs(e abci.Event) map[string]string {
	m := make(map[string]string, len(e.Attributes))
	for _, a := range e.Attributes {
		m[a.Key] = a.Value
	}
	return m
}

func parseCoins(s string) sdk.Coins {
	if s == "" {
		return sdk.Coins{}
	}
	var out sdk.Coins
	for _, part := range strings.Split(s, ",") {
		c, err := sdk.ParseCoinNormalized(part)
		if err != nil {
			continue
		}
		if c.IsPositive() {
			out = out.Add(c)
		}
	}
	return out
}

func parseCoin(s string) (sdk.Coin, bool) {
	c, err := sdk.ParseCoinNormalized(s)
	if err != nil {
		return sdk.Coin{}, false
	}
	return c, true
}

func atou(s string) uint64 { v, _ := strconv.ParseUint(s, 10, 64); return v }

type depRes struct {
	k         pkey
	id        uint64
	who       string
	offered   sdk.Coins
	accepted  sdk.Coins
	refunded  sdk.Coins
	minted    sdk.Coin
	succeeded bool
}

type wdRes struct {
	k         pkey
	id        uint64
	who       string
	poolCoin  sdk.Coin
	refunded  sdk.Coins
	withdrawn sdk.Coins
	succeeded bool
}

type ordRes struct {
	pairID, id uint64
	who        string
	offer      sdk.Coin
	remaining  sdk.Coin
	received   sdk.Coin
	status     string
}

func parseLiqEvents(evs []abci.Event) (deps []depRes, wds []wdRes, ords []ordRes) {
	for _, e := range evs {
		switch e.Type {
		case liqtypes.EventTypeDepositResult:
			m := evAttrs(e)
			minted, ok := parseCoin(m[liqtypes.AttributeKeyMintedPoolCoin])
			if !ok {
				continue
			}
			app, pool, err := liqtypes.ParsePoolCoinDenom(minted.Denom)
			if err != nil {
				continue
			}
			deps = append(deps, depRes{k: pkey{app, pool}, id: atou(m[liqtypes.AttributeKeyRequestID]), who: m[liqtypes.AttributeKeyDepositor],
				offered: parseCoins(m[liqtypes.AttributeKeyDepositCoins]), accepted: parseCoins(m[liqtypes.AttributeKeyAcceptedCoins]),
				refunded: parseCoins(m[liqtypes.AttributeKeyRefundedCoins]), minted: minted,
				succeeded: m[liqtypes.AttributeKeyStatus] == liqtypes.RequestStatusSucceeded.String()})
		case liqtypes.EventTypeWithdrawalResult:
			m := evAttrs(e)
			pc, ok := parseCoin(m[liqtypes.AttributeKeyPoolCoin])
			if !ok {
				continue
			}
			app, pool, err := liqtypes.ParsePoolCoinDenom(pc.Denom)
			if err != nil {
				continue
			}
			wds = append(wds, wdRes{k: pkey{app, pool}, id: atou(m[liqtypes.AttributeKeyRequestID]), who: m[liqtypes.AttributeKeyWithdrawer], poolCoin: pc,
				refunded: parseCoins(m[liqtypes.AttributeKeyRefundedCoins]), withdrawn: parseCoins(m[liqtypes.AttributeKeyWithdrawnCoins]),
				succeeded: m[liqtypes.AttributeKeyStatus] == liqtypes.RequestStatusSucceeded.String()})
		case liqtypes.EventTypeOrderResult:
			m := evAttrs(e)
			offer, ok1 := parseCoin(m[liqtypes.AttributeKeyOfferCoin])
			rem, ok2 := parseCoin(m[liqtypes.AttributeKeyRemainingOfferCoin])
			rec, ok3 := parseCoin(m[liqtypes.AttributeKeyReceivedCoin])
			if !ok1 || !ok2 || !ok3 {
				continue
			}
			ords = append(ords, ordRes{pairID: atou(m[liqtypes.AttributeKeyPairID]), id: atou(m[liqtypes.AttributeKeyOrderID]), who: m[liqtypes.AttributeKeyOrderer],
				offer: offer, remaining: rem, received: rec, status: m[liqtypes.AttributeKeyStatus]})
		}
	}
	return
}

func (t *dexTracker) harvest(w *World) {
	s := t.snap
	deps, wds, ords := parseLiqEvents(w.LastEndBlock.Events)
	if len(deps)+len(wds) > 0 {
		w.Stats.Probe("dex.block_with_requests")
	}
	switch t.prop {
	case "C05":
		t.checkFills(w, s)
	case "C04", "C06":
		t.checkPools(w, s, deps, wds)
		if t.prop == "C06" {
			t.checkPendingRequests(w)
		}
	case "C07":
		t.checkFlows(w, s, deps, wds, ords)
	case "C19":
		t.checkGauges(w, s)
	}
}

// ---------- C05 ----------

type ordAgg struct {
	key           string
	user          bool
	buy           bool
	id            uint64
	poolID        uint64
	n             int
	amt, paid     sdk.Int
	recv          sdk.Int
	limit         sdk.Dec
	maxAmt, offer sdk.Int
	known         bool
	carried       bool
}

func ratDec(d sdk.Dec) *big.Rat { return new(big.Rat).SetFrac(d.BigInt(), oneE18) }
func ratInt(i sdk.Int) *big.Rat { return new(big.Rat).SetInt(i.BigInt()) }

func (t *dexTracker) checkFills(w *World, s *dexSnap) {
	if len(t.fills) == 0 {
		return
	}
	type pairAgg struct {
		pair                                     liqtypes.Pair
		n                                        int
		buyBase, sellBase, buyQuote, sellQuote   sdk.Int
		orders                                   map[interface{}]*ordAgg
		prices                                   map[string]struct{}
	}
	aggs := map[string]*pairAgg{}
	for _, f := range t.fills {
		pk := pairDenomKey(f.offerDenom, f.demandDenom)
		pair, ok := s.pairs[pk]
		if !ok {
			w.Stats.Probe("c05.fill_unattributed")
			continue
		}
		a := aggs[pk]
		if a == nil {
			a = &pairAgg{pair: pair, buyBase: sdk.ZeroInt(), sellBase: sdk.ZeroInt(), buyQuote: sdk.ZeroInt(), sellQuote: sdk.ZeroInt(),
				orders: map[interface{}]*ordAgg{}, prices: map[string]struct{}{}}
			aggs[pk] = a
		}
		a.n++
		a.prices[f.price.String()] = struct{}{}
		if f.buy {
			a.buyBase = a.buyBase.Add(f.recv)
			a.buyQuote = a.buyQuote.Add(f.paid)
		} else {
			a.sellBase = a.sellBase.Add(f.paid)
			a.sellQuote = a.sellQuote.Add(f.recv)
		}
		var id interface{} = f.obj
		o := a.orders[id]
		if o == nil {
			o = &ordAgg{user: f.user, buy: f.buy, id: f.orderID, poolID: f.poolID, amt: sdk.ZeroInt(), paid: sdk.ZeroInt(), recv: sdk.ZeroInt()}
			if f.user {
				o.key = fmt.Sprintf("user order %d", f.orderID)
				if so, ok := s.orders[okey{pair.AppId, pair.Id, f.orderID}]; ok && so.Orderer == f.orderer {
					o.known = true
					o.limit, o.maxAmt, o.offer = so.Price, so.OpenAmount, so.RemainingOfferCoin.Amount
					o.carried = so.OpenAmount.LT(so.Amount)
				}
			} else {
				dir := "sell"
				if f.buy {
					dir = "buy"
				}
				o.key = fmt.Sprintf("pool %d %s order @%s x%s", f.poolID, dir, f.oPrice, f.oAmount)
				o.known = true
				o.limit, o.maxAmt, o.offer = f.oPrice, f.oAmount, f.oOffer
			}
			a.orders[id] = o
		}
		o.n++
		o.amt = o.amt.Add(f.amt)
		o.paid = o.paid.Add(f.paid)
		o.recv = o.recv.Add(f.recv)
	}
	for _, pk := range sortedKeys(aggs) {
		a := aggs[pk]
		w.Stats.Probe("c05.batch_checked")
		w.Stats.ProbeN("c05.fills", int64(a.n))
		if len(a.prices) > 1 {
			w.Stats.Probe("c05.multi_price_batch")
		}
		where := fmt.Sprintf("app %d pair %d batch ending at height %d (%d fills)", a.pair.AppId, a.pair.Id, s.h, a.n)
		if !a.buyBase.Equal(a.sellBase) {
			t.report("C05", "c05.base_conservation", cmpSigInt(a.buyBase, a.sellBase),
				fmt.Sprintf("%s: buyers received %s base, sellers paid %s base", where, a.buyBase, a.sellBase))
		}
		dust := a.buyQuote.Sub(a.sellQuote)
		if dust.IsNegative() {
			t.report("C05", "c05.quote_dust", "negative", fmt.Sprintf("%s: buyers paid %s quote, sellers received %s quote", where, a.buyQuote, a.sellQuote))
		} else if dust.GTE(sdk.NewInt(int64(a.n))) {
			t.report("C05", "c05.quote_dust", "dust>=fills", fmt.Sprintf("%s: quote dust %s is not smaller than the number of fills", where, dust))
		}
		if dust.IsPositive() {
			w.Stats.Probe("c05.dust_positive")
		}
		// per order, in a deterministic order of description
		var list []*ordAgg
		users, poolsN := 0, 0
		for _, o := range a.orders {
			list = append(list, o)
			if o.user {
				users++
			} else {
				poolsN++
			}
		}
		if users > 1 {
			w.Stats.Probe("c05.batch_with_several_user_orders")
		}
		if poolsN > 0 && users > 0 {
			w.Stats.Probe("c05.batch_user_vs_pool")
		}
		sort.Slice(list, func(i, j int) bool { return list[i].key < list[j].key })
		for _, o := range list {
			if o.n > 1 {
				w.Stats.Probe("c05.order_with_several_fills")
			}
			if !o.recv.IsPositive() {
				t.report("C05", "c05.matched_receives_nothing", ordKind(o), fmt.Sprintf("%s: %s was filled %s but received %s", where, o.key, o.amt, o.recv))
			}
			if !o.known {
				w.Stats.Probe("c05.order_not_in_snapshot")
				continue
			}
			w.Stats.Probe("c05.order_checked")
			if o.user && o.buy && o.amt.LT(o.maxAmt) && ratInt(o.offer.Sub(o.paid)).Cmp(ratDec(o.limit)) < 0 {
				// the fill was cut by the order's remaining offer coin, not by its open amount or the other side
				w.Stats.Probe("c05.buy_fill_cut_by_offer_coin")
				if o.carried {
					w.Stats.Probe("c05.carried_buy_fill_cut_by_offer_coin")
					if os.Getenv("VERIF_DEBUG_FILLS") != "" {
						fmt.Printf("CUT %s: %s limit=%s maxAmt=%s amt=%s offer=%s paid=%s n=%d\n", where, o.key, o.limit, o.maxAmt, o.amt, o.offer, o.paid, o.n)
					}
				}
			}
			if o.user && o.buy && o.carried {
				w.Stats.Probe("c05.carried_buy_order_filled_again")
				if o.amt.Equal(o.maxAmt) {
					w.Stats.Probe("c05.carried_buy_order_completed")
					if new(big.Rat).Mul(ratDec(o.limit), ratInt(o.amt)).Cmp(ratInt(o.paid.SubRaw(1))) < 0 {
						w.Stats.Probe("c05.carried_buy_order_completed_at_limit")
					}
				}
			}
			if o.paid.GT(o.offer) {
				t.report("C05", "c05.paid_gt_offer", ordKind(o), fmt.Sprintf("%s: %s paid %s but its offer coin was %s", where, o.key, o.paid, o.offer))
			}
			if o.amt.GT(o.maxAmt) {
				t.report("C05", "c05.filled_gt_amount", ordKind(o), fmt.Sprintf("%s: %s filled %s but its open amount was %s", where, o.key, o.amt, o.maxAmt))
			}
			// price bound: at most one smallest quote unit per fill worse than the limit
			lim := new(big.Rat).Mul(ratDec(o.limit), ratInt(o.amt))
			slack := new(big.Rat).SetInt64(int64(o.n))
			if o.buy {
				if ratInt(o.paid).Cmp(new(big.Rat).Add(lim, slack)) > 0 {
					t.report("C05", "c05.worse_than_limit", ordKind(o)+".buy", fmt.Sprintf("%s: %s bought %s for %s quote; limit %s allows %s (+%d fills)", where, o.key, o.amt, o.paid, o.limit, lim.FloatString(3), o.n))
				}
				if ratInt(o.paid).Cmp(lim) > 0 {
					w.Stats.Probe("c05.limit_exceeded_within_dust")
				}
			} else {
				if ratInt(o.recv).Cmp(new(big.Rat).Sub(lim, slack)) < 0 {
					t.report("C05", "c05.worse_than_limit", ordKind(o)+".sell", fmt.Sprintf("%s: %s sold %s for %s quote; limit %s requires %s (-%d fills)", where, o.key, o.amt, o.recv, o.limit, lim.FloatString(3), o.n))
				}
			}
		}
	}
}

func ordKind(o *ordAgg) string {
	if o.user {
		return "user"
	}
	return "pool"
}

// ---------- C04 supply ledger + C06 ----------

func (t *dexTracker) checkPools(w *World, s *dexSnap, deps []depRes, wds []wdRes) {
	for _, k := range s.poolKeys {
		ps := s.pools[k]
		rx, ry, sup := ps.rx, ps.ry, ps.ps
		// effect of matching on the reserves
		for _, f := range t.fills {
			if f.user || f.poolID != k.pool {
				continue
			}
			if pr, ok := s.pairs[pairDenomKey(f.offerDenom, f.demandDenom)]; !ok || pr.AppId != k.app || pr.Id != ps.pool.PairId {
				continue
			}
			if f.buy { // pool pays quote, receives base
				rx, ry = rx.Sub(f.paid), ry.Add(f.recv)
			} else {
				ry, rx = ry.Sub(f.paid), rx.Add(f.recv)
			}
		}
		nReq := 0
		for _, d := range deps {
			if d.k != k {
				continue
			}
			nReq++
			if !d.succeeded {
				w.Stats.Probe("c06.deposit_failed_refunded")
				continue
			}
			ax, ay := d.accepted.AmountOf(ps.pair.QuoteCoinDenom), d.accepted.AmountOf(ps.pair.BaseCoinDenom)
			ox, oy := d.offered.AmountOf(ps.pair.QuoteCoinDenom), d.offered.AmountOf(ps.pair.BaseCoinDenom)
			t.checkDeposit(w, fmt.Sprintf("deposit request %d of pool %d/%d executed at height %d", d.id, k.app, k.pool, s.h), ps.pool, rx, ry, sup, ox, oy, ax, ay, d.minted.Amount)
			rx, ry, sup = rx.Add(ax), ry.Add(ay), sup.Add(d.minted.Amount)
		}
		for _, x := range wds {
			if x.k != k {
				continue
			}
			nReq++
			if !x.succeeded {
				w.Stats.Probe("c06.withdraw_failed_refunded")
				continue
			}
			ox, oy := x.withdrawn.AmountOf(ps.pair.QuoteCoinDenom), x.withdrawn.AmountOf(ps.pair.BaseCoinDenom)
			t.checkWithdraw(w, fmt.Sprintf("withdraw request %d of pool %d/%d executed at height %d", x.id, k.app, k.pool, s.h), ps.pool, rx, ry, sup, x.poolCoin.Amount, ox, oy, w.dexParams(k.app).WithdrawFeeRate)
			rx, ry, sup = rx.Sub(ox), ry.Sub(oy), sup.Sub(x.poolCoin.Amount)
		}
		nrx, nry, nsup := w.poolBalances(ps.pool, ps.pair)
		if !nsup.Equal(sup) {
			sig := "supply_changed_without_executed_request"
			if nReq > 0 {
				sig = "supply_delta!=minted-burned"
			}
			t.report("C04", "c04.supply_ledger", sig, fmt.Sprintf("pool %d/%d: pool-coin supply went %s -> %s in the block ending at height %d, executed requests explain %s", k.app, k.pool, ps.ps, nsup, s.h, sup))
		} else if !nsup.Equal(ps.ps) {
			w.Stats.Probe("c04.supply_change_explained")
		}
		if !nrx.Equal(rx) || !nry.Equal(ry) {
			w.Stats.Probe("dex.reserve_reconstruction_mismatch")
		}
	}
}

var relTol = big.NewRat(1, 1).SetFrac(big.NewInt(1), new(big.Int).Exp(big.NewInt(10), big.NewInt(17), nil)) // 1e-17

// perShareNotDecreased: r1/s1 >= r0/s0 * (1 - 1e-17)
func perShareNotDecreased(r0, s0, r1, s1 sdk.Int) bool {
	if !s0.IsPositive() || !s1.IsPositive() {
		return true
	}
	lhs := new(big.Rat).SetFrac(r1.BigInt(), s1.BigInt())
	rhs := new(big.Rat).SetFrac(r0.BigInt(), s0.BigInt())
	rhs.Mul(rhs, new(big.Rat).Sub(big.NewRat(1, 1), relTol))
	return lhs.Cmp(rhs) >= 0
}

func poolKind(pl liqtypes.Pool) string {
	if pl.Type == liqtypes.PoolTypeRanged {
		return "ranged"
	}
	return "basic"
}

// checkPendingRequests evaluates the module's own amm.Deposit / amm.Withdraw on the live inputs of every request that is
// waiting for its batch (reserves and share supply as they stand now). A deposit that would take more than was offered
// cannot be observed as an executed request - the escrow cannot pay it, the batch of the whole app is rolled back in every
// block and the request stays pending - so the law is checked on the function's output for these reachable inputs.
func (t *dexTracker) checkPendingRequests(w *World) {
	ctx := w.Ctx()
	lk := w.App.LiquidityKeeper
	for _, app := range w.Dex.AppIDs {
		fee := w.dexParams(app).WithdrawFeeRate
		for _, req := range lk.GetAllDepositRequests(ctx, app) {
			if req.Status != liqtypes.RequestStatusNotExecuted {
				continue
			}
			pl, ok := lk.GetPool(ctx, app, req.PoolId)
			if !ok || pl.Disabled {
				continue
			}
			pair, ok := lk.GetPair(ctx, app, pl.PairId)
			if !ok {
				continue
			}
			rx, ry, ps := w.poolBalances(pl, pair)
			if !ps.IsPositive() || (!rx.IsPositive() && !ry.IsPositive()) {
				continue
			}
			ox, oy := req.DepositCoins.AmountOf(pair.QuoteCoinDenom), req.DepositCoins.AmountOf(pair.BaseCoinDenom)
			var ax, ay, pc sdk.Int
			if msg := catch(func() { ax, ay, pc = amm.Deposit(rx, ry, ps, ox, oy) }); msg != "" {
				t.report("C06", "c06.deposit_panics", poolKind(pl), fmt.Sprintf("amm.Deposit(%s,%s,%s,%s,%s) on the live inputs of pending request %d: %s", rx, ry, ps, ox, oy, req.Id, msg))
				continue
			}
			if !pc.IsPositive() {
				continue
			}
			w.Stats.Probe("c06.pending_deposit_checked")
			t.checkDepositLaws(w, fmt.Sprintf("amm.Deposit on the live inputs of pending deposit request %d of pool %d/%d at height %d", req.Id, app, pl.Id, w.Height()), pl, rx, ry, ps, ox, oy, ax, ay, pc)
		}
		for _, req := range lk.GetAllWithdrawRequests(ctx, app) {
			if req.Status != liqtypes.RequestStatusNotExecuted {
				continue
			}
			pl, ok := lk.GetPool(ctx, app, req.PoolId)
			if !ok || pl.Disabled {
				continue
			}
			pair, ok := lk.GetPair(ctx, app, pl.PairId)
			if !ok {
				continue
			}
			rx, ry, ps := w.poolBalances(pl, pair)
			if !ps.IsPositive() || req.PoolCoin.Amount.GT(ps) {
				continue
			}
			var x, y sdk.Int
			if msg := catch(func() { x, y = amm.Withdraw(rx, ry, ps, req.PoolCoin.Amount, fee) }); msg != "" {
				t.report("C06", "c06.withdraw_panics", poolKind(pl), fmt.Sprintf("amm.Withdraw(%s,%s,%s,%s,%s) on the live inputs of pending request %d: %s", rx, ry, ps, req.PoolCoin.Amount, fee, req.Id, msg))
				continue
			}
			if x.IsZero() && y.IsZero() {
				continue
			}
			w.Stats.Probe("c06.pending_withdraw_checked")
			t.checkWithdrawLaws(w, fmt.Sprintf("amm.Withdraw on the live inputs of pending withdraw request %d of pool %d/%d at height %d", req.Id, app, pl.Id, w.Height()), pl, rx, ry, ps, req.PoolCoin.Amount, x, y, fee)
		}
	}
}

func catch(f func()) (msg string) {
	defer func() {
		if r := recover(); r != nil {
			msg = fmt.Sprint(r)
		}
	}()
	f()
	return ""
}

func (t *dexTracker) checkDeposit(w *World, where string, pl liqtypes.Pool, rx, ry, ps, ox, oy, ax, ay, minted sdk.Int) {
	w.Stats.Probe("c06.deposit_checked")
	if poolKind(pl) == "ranged" {
		w.Stats.Probe("c06.deposit_checked_ranged")
	}
	t.checkDepositLaws(w, where, pl, rx, ry, ps, ox, oy, ax, ay, minted)
}

func (t *dexTracker) checkDepositLaws(w *World, where string, pl liqtypes.Pool, rx, ry, ps, ox, oy, ax, ay, minted sdk.Int) {
	kind := poolKind(pl)
	if ax.GT(ox) || ay.GT(oy) {
		t.report("C06", "c06.deposit_takes_more_than_offered", kind, fmt.Sprintf("%s: offered (%s,%s), accepted (%s,%s)", where, ox, oy, ax, ay))
	}
	if ax.LT(ox) || ay.LT(oy) {
		w.Stats.Probe("c06.deposit_partially_accepted")
	}
	// shares minted at a rate no better than reserves per share: minted/ps <= ax/rx and <= ay/ry, i.e. the depositor may
	// not pay less than r*minted/ps; a shortfall below 1e-17 of the reserve is the statement's rounding allowance (counted)
	short := func(r, a sdk.Int) (clearly bool, band bool) {
		if !r.IsPositive() {
			return false, false
		}
		lhs := new(big.Int).Mul(minted.BigInt(), r.BigInt())
		rhs := new(big.Int).Mul(a.BigInt(), ps.BigInt())
		if lhs.Cmp(rhs) <= 0 {
			return false, false
		}
		// shortfall/r = (minted*r - a*ps)/(ps*r) > 1e-17 ?
		d := new(big.Rat).SetFrac(new(big.Int).Sub(lhs, rhs), new(big.Int).Mul(ps.BigInt(), r.BigInt()))
		if d.Cmp(relTol) > 0 {
			return true, false
		}
		return false, true
	}
	if bad, band := short(rx, ax); bad {
		t.report("C06", "c06.deposit_mint_rate", kind+".x", fmt.Sprintf("%s: minted %s of supply %s for %s of reserve x %s", where, minted, ps, ax, rx))
	} else if band {
		w.Stats.Probe("c06.mint_rate_rounding_band")
	}
	if bad, band := short(ry, ay); bad {
		t.report("C06", "c06.deposit_mint_rate", kind+".y", fmt.Sprintf("%s: minted %s of supply %s for %s of reserve y %s", where, minted, ps, ay, ry))
	} else if band {
		w.Stats.Probe("c06.mint_rate_rounding_band")
	}
	if !rx.IsPositive() && ax.IsPositive() || !ry.IsPositive() && ay.IsPositive() {
		w.Stats.Probe("c06.deposit_into_empty_side")
	}
	if !perShareNotDecreased(rx, ps, rx.Add(ax), ps.Add(minted)) || !perShareNotDecreased(ry, ps, ry.Add(ay), ps.Add(minted)) {
		t.report("C06", "c06.reserves_per_share_decreased", kind+".deposit", fmt.Sprintf("%s: reserves (%s,%s)/%s -> (%s,%s)/%s", where, rx, ry, ps, rx.Add(ax), ry.Add(ay), ps.Add(minted)))
	}
}

func (t *dexTracker) checkWithdraw(w *World, where string, pl liqtypes.Pool, rx, ry, ps, pc, ox, oy sdk.Int, fee sdk.Dec) {
	w.Stats.Probe("c06.withdraw_checked")
	if poolKind(pl) == "ranged" {
		w.Stats.Probe("c06.withdraw_checked_ranged")
	}
	if !fee.IsZero() {
		w.Stats.Probe("c06.withdraw_checked_with_fee")
	}
	if pc.Equal(ps) {
		w.Stats.Probe("c06.last_share_redeemed")
	}
	t.checkWithdrawLaws(w, where, pl, rx, ry, ps, pc, ox, oy, fee)
}

func (t *dexTracker) checkWithdrawLaws(w *World, where string, pl liqtypes.Pool, rx, ry, ps, pc, ox, oy sdk.Int, fee sdk.Dec) {
	kind := poolKind(pl)
	if pc.Equal(ps) {
		if !ox.Equal(rx) || !oy.Equal(ry) {
			t.report("C06", "c06.last_share_not_everything", kind, fmt.Sprintf("%s: redeemed the whole supply %s, reserves (%s,%s), returned (%s,%s)", where, ps, rx, ry, ox, oy))
		}
		return
	}
	if pc.GT(ps) {
		t.report("C06", "c06.withdraw_more_than_supply", kind, fmt.Sprintf("%s: %s pool coins of supply %s", where, pc, ps))
		return
	}
	// out <= r * pc/ps * (1-fee)
	mult := new(big.Rat).Sub(big.NewRat(1, 1), ratDec(fee))
	bound := func(r sdk.Int) *big.Rat {
		b := new(big.Rat).SetFrac(new(big.Int).Mul(r.BigInt(), pc.BigInt()), ps.BigInt())
		return b.Mul(b, mult)
	}
	if ratInt(ox).Cmp(bound(rx)) > 0 || ratInt(oy).Cmp(bound(ry)) > 0 {
		t.report("C06", "c06.withdraw_more_than_pro_rata", kind, fmt.Sprintf("%s: %s of supply %s, reserves (%s,%s), fee %s, returned (%s,%s) > (%s,%s)", where, pc, ps, rx, ry, fee, ox, oy, bound(rx).FloatString(2), bound(ry).FloatString(2)))
	}
	if !perShareNotDecreased(rx, ps, rx.Sub(ox), ps.Sub(pc)) || !perShareNotDecreased(ry, ps, ry.Sub(oy), ps.Sub(pc)) {
		t.report("C06", "c06.reserves_per_share_decreased", kind+".withdraw", fmt.Sprintf("%s: reserves (%s,%s)/%s -> (%s,%s)/%s", where, rx, ry, ps, rx.Sub(ox), ry.Sub(oy), ps.Sub(pc)))
	}
}

// ---------- C07 block-level flows ----------

type flowIv struct{ lo, hi sdk.Int }

type flowBook struct {
	m       map[string]map[string]*flowIv
	unknown map[string]bool // addr|denom with a flow the tracker cannot quantify
}

func newFlowBook() *flowBook { return &flowBook{m: map[string]map[string]*flowIv{}, unknown: map[string]bool{}} }

func (b *flowBook) add(addr, denom string, lo, hi sdk.Int) {
	if b.m[addr] == nil {
		b.m[addr] = map[string]*flowIv{}
	}
	iv := b.m[addr][denom]
	if iv == nil {
		iv = &flowIv{sdk.ZeroInt(), sdk.ZeroInt()}
		b.m[addr][denom] = iv
	}
	iv.lo, iv.hi = iv.lo.Add(lo), iv.hi.Add(hi)
}

func (b *flowBook) addCoins(addr string, cs sdk.Coins) {
	for _, c := range cs {
		b.add(addr, c.Denom, c.Amount, c.Amount)
	}
}

func floorMul(x sdk.Int, d sdk.Dec) sdk.Int { return floorMulDec(x, d) }
func ceilMul(x sdk.Int, d sdk.Dec) sdk.Int {
	n := new(big.Int).Mul(x.BigInt(), d.BigInt())
	q, m := new(big.Int).QuoRem(n, oneE18, new(big.Int))
	if m.Sign() > 0 {
		q.Add(q, bigOne)
	}
	return sdk.NewIntFromBigInt(q)
}

// refundInterval: what the orderer must get back in the offer denom when the order terminates.
func refundInterval(offer, remaining, reserve sdk.Int, rate sdk.Dec, mm bool) (lo, hi sdk.Int) {
	if mm {
		return remaining, remaining
	}
	if remaining.Equal(offer) {
		v := remaining.Add(reserve)
		return v, v
	}
	exec := offer.Sub(remaining)
	feeLo, feeHi := floorMul(exec, rate), ceilMul(exec, rate)
	if remaining.IsZero() {
		// fully executed: the whole reserve is attributable to the executed portion (up to the truncation convention)
		feeHi = reserve
		if feeLo.GT(reserve) {
			feeLo = reserve
		}
	}
	if feeHi.GT(reserve) {
		feeHi = reserve
	}
	if feeLo.GT(feeHi) {
		feeLo = feeHi
	}
	return remaining.Add(reserve).Sub(feeHi), remaining.Add(reserve).Sub(feeLo)
}

func (t *dexTracker) checkFlows(w *World, s *dexSnap, deps []depRes, wds []wdRes, ords []ordRes) {
	book := newFlowBook()
	// proceeds of fills
	for _, f := range t.fills {
		if f.user {
			book.add(f.orderer, f.demandDenom, f.recv, f.recv)
		}
	}
	// terminated orders
	for _, o := range ords {
		var so liqtypes.Order
		var key okey
		found := false
		for _, app := range w.Dex.AppIDs {
			k := okey{app, o.pairID, o.id}
			if x, ok := s.orders[k]; ok && x.Orderer == o.who && x.OfferCoin.Denom == o.offer.Denom && x.ReceivedCoin.Denom == o.received.Denom {
				so, key, found = x, k, true
				break
			}
		}
		if !found {
			book.unknown[o.who+"|"+o.offer.Denom] = true
			w.Stats.Probe("c07.terminated_order_not_in_snapshot")
			continue
		}
		mm := so.Type == liqtypes.OrderTypeMM
		reserve, known := t.reserve[key]
		if !known {
			book.unknown[o.who+"|"+o.offer.Denom] = true
			w.Stats.Probe("c07.terminated_order_unknown_reserve")
			continue
		}
		lo, hi := refundInterval(o.offer.Amount, o.remaining.Amount, reserve, w.dexParams(key.app).SwapFeeRate, mm)
		book.add(o.who, o.offer.Denom, lo, hi)
		delete(t.reserve, key)
		w.Stats.Probe("c07.terminated_in_block")
		switch {
		case strings.HasSuffix(o.status, "EXPIRED"):
			w.Stats.Probe("c07.end.expired")
		case strings.HasSuffix(o.status, "COMPLETED"):
			w.Stats.Probe("c07.end.completed")
		}
		if !o.remaining.Amount.Equal(o.offer.Amount) && o.remaining.IsPositive() {
			w.Stats.Probe("c07.end.partially_filled")
		}
		if mm {
			w.Stats.Probe("c07.end.mm")
		}
	}
	for _, d := range deps {
		book.addCoins(d.who, d.refunded)
		if d.succeeded {
			book.add(d.who, d.minted.Denom, d.minted.Amount, d.minted.Amount)
		}
	}
	for _, x := range wds {
		book.addCoins(x.who, x.refunded)
		if x.succeeded {
			book.addCoins(x.who, x.withdrawn)
		}
	}
	// denoms in which a gauge distributed or collected something in this window (BeginBlock of the next height)
	now := w.App.BankKeeper.GetAllBalances(w.Ctx(), w.ModAddr(rewardstypes.ModuleName))
	rewardDenoms := map[string]bool{}
	for _, d := range allDenoms(s.rewardsBal, now) {
		if !now.AmountOf(d).Equal(s.rewardsBal.AmountOf(d)) {
			rewardDenoms[d] = true
		}
	}
	for _, g := range w.App.Rewardskeeper.GetAllGauges(w.Ctx()) {
		old, ok := s.gauges[g.Id]
		if !ok || old.TriggeredCount != g.TriggeredCount || !old.DistributedAmount.IsEqual(g.DistributedAmount) {
			rewardDenoms[g.DepositAmount.Denom] = true
			rewardDenoms[g.DistributedAmount.Denom] = true
			if ok {
				rewardDenoms[old.DepositAmount.Denom] = true
			}
		}
	}
	for _, i := range w.Dex.Users {
		a := w.Actors[i]
		addr := a.Bech()
		pre := s.bals[addr]
		post := w.App.BankKeeper.GetAllBalances(w.Ctx(), a.Addr)
		denoms := map[string]struct{}{}
		for _, c := range pre {
			denoms[c.Denom] = struct{}{}
		}
		for _, c := range post {
			denoms[c.Denom] = struct{}{}
		}
		for _, d := range sortedKeys(denoms) {
			if rewardDenoms[d] || book.unknown[addr+"|"+d] {
				w.Stats.Probe("c07.flow_check_skipped")
				continue
			}
			delta := post.AmountOf(d).Sub(pre.AmountOf(d))
			lo, hi := sdk.ZeroInt(), sdk.ZeroInt()
			if iv := book.m[addr][d]; iv != nil {
				lo, hi = iv.lo, iv.hi
			}
			if delta.LT(lo) || delta.GT(hi) {
				t.report("C07", "c07.block_flows", cmpSigInt(delta, hi), fmt.Sprintf("%s balance of %s changed by %s in the block ending at height %d; fills, order terminations and pool requests account for [%s, %s]", a.Name, d, delta, s.h, lo, hi))
			} else if !delta.IsZero() {
				w.Stats.Probe("c07.block_flows_checked")
			}
		}
	}
}

// ---------- C19 ----------

func u64Sum(xs []uint64) *big.Int {
	s := new(big.Int)
	for _, x := range xs {
		s.Add(s, new(big.Int).SetUint64(x))
	}
	return s
}
