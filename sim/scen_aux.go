package main

// Auxiliary money flows of the cdp scenario: x/locker, collector configuration flows (saving rate, auction mapping flags,
// surplus fund), V2 English-style surplus/debt auctions and the V2 limit-bid book, plus an attacker actor who uses every
// degree of freedom that ValidateBasic leaves open on limit-bid withdraw / cancel messages.

import (
	"fmt"
	"math/big"
	"sort"
	"strconv"

	sdk "github.com/cosmos/cosmos-sdk/types"
	banktypes "github.com/cosmos/cosmos-sdk/x/bank/types"

	"github.com/comdex-official/comdex/app/wasm/bindings"
	assettypes "github.com/comdex-official/comdex/x/asset/types"
	auctionsV2types "github.com/comdex-official/comdex/x/auctionsV2/types"
	liqtypes "github.com/comdex-official/comdex/x/liquidationsV2/types"
	lockertypes "github.com/comdex-official/comdex/x/locker/types"
	rewardstypes "github.com/comdex-official/comdex/x/rewards/types"
	tokenmintkeeper "github.com/comdex-official/comdex/x/tokenmint/keeper"
	tokenminttypes "github.com/comdex-official/comdex/x/tokenmint/types"
)

// AuxPlan is the set-up data shared by the aux generators and oracles (kept in w.X["aux"]).
type AuxPlan struct {
	LockerOn   bool
	RewardsOn  bool
	Flags      int // index into auxFlagCombos
	AttackerOn bool
	LimitOn    bool
	FlagFlips  bool
	EngBidders []int        // actor indexes that bid on English auctions
	LockerUser []int        // actor indexes that use lockers
	LimitUsers []int        // honest limit-bid users
	CollAssets []*AssetInfo // distinct collateral assets of the (non-stable) vault products
	// (collateral id, premium) buckets for which a deposit message was ever *delivered* (recorded in World.Apply's caller
	// via noteLimitMsg before execution, successful or not) -- only these can hold limit bids
	bucketSeen map[[2]int64]bool
}

// noteLimitMsg must see every event before it executes (called from the snapshot code of the aux oracles and from the generators' reader).
func (w *World) noteLimitMsg(ev *Event) {
	ap := auxP(w)
	if ap == nil || ev == nil || ev.Kind != "tx" {
		return
	}
	msgs, err := w.DecodeMsgs(ev)
	if err != nil {
		return
	}
	for _, m := range msgs {
		if d, ok := m.(*auctionsV2types.MsgDepositLimitBidRequest); ok && d.PremiumDiscount.IsInt64() {
			ap.bucketSeen[[2]int64{int64(d.CollateralTokenId), d.PremiumDiscount.Int64()}] = true
		}
	}
}

// every legal combination of (IsSurplusAuction, IsDebtAuction, IsDistributor): surplus excludes the other two.
var auxFlagCombos = [][3]bool{
	{false, false, false},
	{true, false, false},
	{false, true, false},
	{false, false, true},
	{false, true, true},
}

func auxP(w *World) *AuxPlan {
	if p, ok := w.X["aux"].(*AuxPlan); ok {
		return p
	}
	return nil
}

// drawAuxConfig draws the aux knobs (called from drawCdpConfig).
func drawAuxConfig(r *Rng, cfg *Config) {
	k := cfg.Knobs
	k["aux_flags"] = int64(r.Intn(len(auxFlagCombos)))
	k["aux_locker"] = 1
	if r.Chance(1, 8) {
		k["aux_locker"] = 0
	}
	k["aux_locker_rewards"] = 1
	if r.Chance(1, 5) {
		k["aux_locker_rewards"] = 0
	}
	k["aux_attacker"] = int64(r.Intn(2))
	k["aux_limit"] = 1
	if r.Chance(1, 6) {
		k["aux_limit"] = 0
	}
	k["aux_flag_flips"] = int64(r.Intn(2))
	k["aux_thr"] = int64(r.Intn(4))      // surplus threshold profile
	k["aux_lot"] = int64(r.Intn(4))      // lot size profile
	k["aux_lsr"] = int64(r.Intn(4))      // initial saving rate profile (0 = keep what set-up chose)
	k["aux_debt_thr"] = int64(r.Intn(3)) // 0 = keep small (debt auctions only when net fees ~0), else large
}

// inTxScope runs f on a branch of the deliver state and commits only when f returns nil and does not panic -- the same
// all-or-nothing scope a wasm-dispatched message has inside its transaction.
func (w *World) inTxScope(f func(ctx sdk.Context) error) (err error) {
	ctx := w.WCtx() // the only run-time writer of this file: the three aux.* admin ops go through here
	cctx, write := ctx.CacheContext()
	defer func() {
		if rec := recover(); rec != nil {
			err = fmt.Errorf("panic: %v", rec)
		}
	}()
	if err = f(cctx); err != nil {
		return err
	}
	write()
	return nil
}

// setupAux extends the cdp world. r is the set-up PRNG of setupCdp.
func setupAux(w *World, r *Rng) {
	cfg := &w.Cfg
	p := w.Cdp
	ctx := w.Ctx()
	ap := &AuxPlan{
		LockerOn: cfg.KB("aux_locker"), RewardsOn: cfg.KB("aux_locker_rewards"), Flags: int(cfg.K("aux_flags")),
		AttackerOn: cfg.KB("aux_attacker"), LimitOn: cfg.KB("aux_limit"), FlagFlips: cfg.KB("aux_flag_flips"),
	}
	ap.bucketSeen = map[[2]int64]bool{}
	w.X["aux"] = ap
	seen := map[uint64]bool{}
	for _, pr := range p.Products {
		if !pr.Stable && !seen[pr.In.ID] {
			seen[pr.In.ID] = true
			ap.CollAssets = append(ap.CollAssets, pr.In)
		}
	}
	ap.EngBidders = append(append([]int{}, p.Bidders...), p.Attacker, p.Users[0])
	ap.LockerUser = append(append([]int{}, p.Users...), p.Bidders...)
	ap.LimitUsers = append(append([]int{}, p.Bidders...), p.Users[0])
	if len(p.Users) > 1 {
		ap.LimitUsers = append(ap.LimitUsers, p.Users[1])
	}
	admin := w.Actors[p.Admin]

	// (1) locker: asset whitelisted for the app, app/asset whitelisted for locker rewards (same entry points as the wasm bindings)
	if ap.LockerOn {
		if _, err := w.App.LockerKeeper.AddWhiteListedAsset(ctx, &lockertypes.MsgAddWhiteListedAssetRequest{From: admin.Bech(), AppId: p.AppID, AssetId: p.Debt.ID}); err != nil {
			panic(fmt.Sprintf("locker whitelist: %v", err))
		}
		if ap.RewardsOn {
			if _, err := w.App.Rewardskeeper.Whitelist(ctx, &rewardstypes.WhitelistAsset{From: admin.Bech(), AppMappingId: p.AppID, AssetId: p.Debt.ID}); err != nil {
				panic(fmt.Sprintf("locker rewards whitelist: %v", err))
			}
		}
	}

	// (2) the gov token is a genesis token of the app and has been genesis-minted: tokenmint can mint/burn it for debt/surplus lots
	// (idempotent: the main set-up may already have registered the genesis token)
	if _, found := w.App.AssetKeeper.GetMintGenesisTokenData(ctx, p.AppID, p.Gov.ID); !found {
		if err := w.App.AssetKeeper.AddAssetInAppRecords(ctx, assettypes.AppData{Id: p.AppID, GenesisToken: []assettypes.MintGenesisToken{
			{AssetId: p.Gov.ID, GenesisSupply: p.Gov.Decimals.MulRaw(r.Range(1_000_000, 50_000_000)), IsGovToken: false, Recipient: admin.Bech()}}}); err != nil {
			panic(fmt.Sprintf("asset in app: %v", err))
		}
	}
	if _, found := w.App.TokenmintKeeper.GetAssetDataInTokenMintByApp(ctx, p.AppID, p.Gov.ID); !found {
		if _, err := tokenmintkeeper.NewMsgServer(w.App.TokenmintKeeper).MsgMintNewTokens(sdk.WrapSDKContext(ctx), &tokenminttypes.MsgMintNewTokensRequest{From: admin.Bech(), AppId: p.AppID, AssetId: p.Gov.ID}); err != nil {
			panic(fmt.Sprintf("tokenmint genesis: %v", err))
		}
	}

	// (3) thresholds and lot sizes that the fees of a short run can reach
	cur, found := w.App.CollectorKeeper.GetCollectorLookupTable(ctx, p.AppID, p.Debt.ID)
	if !found {
		panic("collector lookup table missing")
	}
	unit := p.Debt.Decimals
	upd := &bindings.MsgUpdateCollectorLookupTable{AppID: p.AppID, AssetID: p.Debt.ID, DebtThreshold: cur.DebtThreshold, SurplusThreshold: cur.SurplusThreshold,
		LotSize: cur.LotSize, DebtLotSize: cur.DebtLotSize, BidFactor: cur.BidFactor, LSR: cur.LockerSavingRate}
	upd.SurplusThreshold = []sdk.Int{sdk.ZeroInt(), unit.QuoRaw(100), unit.QuoRaw(10), unit}[cfg.K("aux_thr")]
	upd.LotSize = []sdk.Int{unit.QuoRaw(1000), unit.QuoRaw(100), unit.QuoRaw(20), unit.QuoRaw(4)}[cfg.K("aux_lot")]
	if cfg.K("aux_debt_thr") != 0 {
		upd.DebtThreshold = unit.MulRaw(1_000_000) // net fees are always "too low": debt lots whenever the flag is on
	}
	upd.DebtLotSize = pow10(6).MulRaw(r.Range(1, 2000))
	switch cfg.K("aux_lsr") {
	case 1:
		upd.LSR = decStr("0.05")
	case 2:
		upd.LSR = decStr("0.5")
	case 3:
		upd.LSR = decStr("3")
	}
	if err := w.App.CollectorKeeper.WasmUpdateCollectorLookupTable(ctx, upd); err != nil {
		panic(fmt.Sprintf("update collector lookup: %v", err))
	}

	// (4) auction mapping flags
	fl := auxFlagCombos[ap.Flags]
	if err := w.App.CollectorKeeper.WasmSetAuctionMappingForApp(ctx, &bindings.MsgSetAuctionMappingForApp{AppID: p.AppID, AssetIDs: p.Debt.ID,
		IsSurplusAuctions: fl[0], IsDebtAuctions: fl[1], IsDistributor: fl[2], AssetOutOraclePrices: false, AssetOutPrices: 1000000}); err != nil {
		panic(fmt.Sprintf("auction mapping: %v", err))
	}
}

// ---------- chain readers shared by generators and oracles ----------

type limitKey struct {
	debt, coll uint64
	prem       int64
	addr       string
}

func (k limitKey) String() string {
	return fmt.Sprintf("%d|%d|%03d|%s", k.debt, k.coll, k.prem, k.addr)
}

// allLimitBids enumerates the limit-bid book for the debt asset against every collateral asset of the scenario, bucket by bucket.
func (w *World) allLimitBids() []auctionsV2types.LimitOrderBid {
	ap := auxP(w)
	if ap == nil {
		return nil
	}
	ctx := w.Ctx()
	var out []auctionsV2types.LimitOrderBid
	for _, c := range ap.CollAssets {
		// cheap pre-check: the book's recorded total exists only once somebody deposited against this collateral
		if _, found := w.App.NewaucKeeper.GetLimitBidProtocolDataByAssetID(ctx, w.Cdp.Debt.ID, c.ID); !found {
			continue
		}
		for prem := int64(0); prem <= int64(auctionsV2types.MaxPremiumDiscount); prem++ {
			if !ap.bucketSeen[[2]int64{int64(c.ID), prem}] {
				continue
			}
			bs, found := w.App.NewaucKeeper.GetUserLimitBidDataByPremium(ctx, w.Cdp.Debt.ID, c.ID, sdk.NewInt(prem))
			if found {
				out = append(out, bs...)
			}
		}
	}
	return out
}

func (w *World) limitBidsOf(addr string) []auctionsV2types.LimitOrderBid {
	var out []auctionsV2types.LimitOrderBid
	for _, b := range w.allLimitBids() {
		if b.BidderAddress == addr {
			out = append(out, b)
		}
	}
	return out
}

func (w *World) englishAuctions() []auctionsV2types.Auction {
	var out []auctionsV2types.Auction
	for _, a := range w.App.NewaucKeeper.GetAuctions(w.Ctx()) {
		if !a.AuctionType {
			out = append(out, a)
		}
	}
	return out
}

func (w *World) dutchAuctions() []auctionsV2types.Auction {
	var out []auctionsV2types.Auction
	for _, a := range w.App.NewaucKeeper.GetAuctions(w.Ctx()) {
		if a.AuctionType {
			out = append(out, a)
		}
	}
	return out
}

func (w *World) lockedOf(a auctionsV2types.Auction) (liqtypes.LockedVault, bool) {
	return w.App.NewliqKeeper.GetLockedVault(w.Ctx(), a.AppId, a.LockedVaultId)
}

func (w *World) lockerOf(a *Actor) (lockertypes.Locker, bool) {
	ctx := w.Ctx()
	m, _ := w.App.LockerKeeper.GetUserLockerAssetMapping(ctx, a.Bech(), w.Cdp.AppID, w.Cdp.Debt.ID)
	if m.LockerId == 0 {
		return lockertypes.Locker{}, false
	}
	return w.App.LockerKeeper.GetLocker(ctx, m.LockerId)
}

func pickIdx(r *Rng, xs []int) int { return xs[r.Intn(len(xs))] }

// current premium bucket of a dutch auction as the limit-order matcher computes it (-1 = price not below oracle yet)
func dutchBucket(a auctionsV2types.Auction) int64 {
	if a.CollateralTokenOraclePrice.IsNil() || a.CollateralTokenAuctionPrice.IsNil() || !a.CollateralTokenOraclePrice.IsPositive() {
		return -1
	}
	if !a.CollateralTokenOraclePrice.GT(a.CollateralTokenAuctionPrice) {
		return -1
	}
	return a.CollateralTokenOraclePrice.Sub(a.CollateralTokenAuctionPrice).Quo(a.CollateralTokenOraclePrice).MulInt64(100).TruncateInt64()
}

// ---------- generators ----------

func auxGens() []OpGen {
	return []OpGen{
		{"locker.create", 5, func(w *World, r *Rng) *Event {
			ap := auxP(w)
			if ap == nil {
				return nil
			}
			a := w.Actors[pickIdx(r, ap.LockerUser)]
			if _, has := w.lockerOf(a); has && !r.Chance(1, 10) {
				return nil
			}
			bal := w.Bal(a.Addr, w.Cdp.Debt.Denom)
			if !bal.IsPositive() {
				return nil
			}
			amt := bal.MulRaw(r.Range(1, 60)).QuoRaw(100)
			ev := (*Event)(nil)
			switch r.Intn(8) {
			case 0:
				amt = sdk.OneInt()
			case 1:
				amt = bal
			case 2:
				amt = bal.AddRaw(1)
			}
			ev = w.TxEvent("locker.create", a, &lockertypes.MsgCreateLockerRequest{Depositor: a.Bech(), Amount: posInt(amt), AssetId: w.Cdp.Debt.ID, AppId: w.Cdp.AppID})
			if amt.GT(bal) {
				ev.Fault = "tx.insufficient"
			}
			return ev
		}},
		{"locker.deposit", 4, func(w *World, r *Rng) *Event {
			ap := auxP(w)
			if ap == nil {
				return nil
			}
			a := w.Actors[pickIdx(r, ap.LockerUser)]
			l, has := w.lockerOf(a)
			if !has {
				return nil
			}
			bal := w.Bal(a.Addr, w.Cdp.Debt.Denom)
			if !bal.IsPositive() {
				return nil
			}
			amt := bal.MulRaw(r.Range(1, 50)).QuoRaw(100)
			if r.Chance(1, 8) {
				amt = sdk.OneInt()
			}
			return w.TxEvent("locker.deposit", a, &lockertypes.MsgDepositAssetRequest{Depositor: a.Bech(), LockerId: l.LockerId, Amount: posInt(amt), AssetId: w.Cdp.Debt.ID, AppId: w.Cdp.AppID})
		}},
		{"locker.withdraw", 5, func(w *World, r *Rng) *Event {
			ap := auxP(w)
			if ap == nil {
				return nil
			}
			a := w.Actors[pickIdx(r, ap.LockerUser)]
			l, has := w.lockerOf(a)
			if !has {
				return nil
			}
			var amt sdk.Int
			switch r.Intn(7) {
			case 0:
				amt = l.NetBalance // everything
			case 1:
				amt = l.NetBalance.AddRaw(1) // one too many
			case 2:
				amt = sdk.OneInt()
			case 3:
				amt = l.NetBalance.SubRaw(1)
			default:
				amt = l.NetBalance.MulRaw(r.Range(1, 99)).QuoRaw(100)
			}
			signer := a
			if r.Chance(1, 15) { // somebody else's locker
				signer = w.Actors[w.Cdp.Attacker]
			}
			return w.TxEvent("locker.withdraw", signer, &lockertypes.MsgWithdrawAssetRequest{Depositor: signer.Bech(), LockerId: l.LockerId, Amount: posInt(amt), AssetId: w.Cdp.Debt.ID, AppId: w.Cdp.AppID})
		}},
		{"locker.close", 2, func(w *World, r *Rng) *Event {
			ap := auxP(w)
			if ap == nil {
				return nil
			}
			a := w.Actors[pickIdx(r, ap.LockerUser)]
			l, has := w.lockerOf(a)
			if !has {
				return nil
			}
			return w.TxEvent("locker.close", a, &lockertypes.MsgCloseLockerRequest{Depositor: a.Bech(), AppId: w.Cdp.AppID, AssetId: w.Cdp.Debt.ID, LockerId: l.LockerId})
		}},
		{"locker.reward_calc", 3, func(w *World, r *Rng) *Event {
			ap := auxP(w)
			if ap == nil {
				return nil
			}
			ls := w.App.LockerKeeper.GetLockers(w.Ctx())
			if len(ls) == 0 {
				return nil
			}
			l := ls[r.Intn(len(ls))]
			a := w.cdpUser(r)
			return w.TxEvent("locker.reward_calc", a, &lockertypes.MsgLockerRewardCalcRequest{From: a.Bech(), AppId: w.Cdp.AppID, LockerId: l.LockerId})
		}},
		{"col.set_lsr", 2, func(w *World, r *Rng) *Event {
			ap := auxP(w)
			if ap == nil {
				return nil
			}
			cur, found := w.App.CollectorKeeper.GetCollectorLookupTable(w.Ctx(), w.Cdp.AppID, w.Cdp.Debt.ID)
			if !found {
				return nil
			}
			lsr := []string{"0", "0", "0.02", "0.2", "1", "5"}[r.Intn(6)]
			args := map[string]string{"lsr": lsr, "debt_threshold": cur.DebtThreshold.String(), "surplus_threshold": cur.SurplusThreshold.String(),
				"lot": cur.LotSize.String(), "debt_lot": cur.DebtLotSize.String(), "bid_factor": cur.BidFactor.String()}
			if r.Chance(1, 4) { // thresholds move too
				unit := w.Cdp.Debt.Decimals
				args["surplus_threshold"] = []sdk.Int{sdk.ZeroInt(), unit.QuoRaw(100), unit.QuoRaw(10), unit}[r.Intn(4)].String()
				args["lot"] = []sdk.Int{unit.QuoRaw(1000), unit.QuoRaw(100), unit.QuoRaw(20), unit.QuoRaw(4)}[r.Intn(4)].String()
			}
			return &Event{Kind: "admin", Tag: "col.set_lsr", Admin: "aux.update_lookup", Actor: w.Cdp.Admin, Args: args}
		}},
		// savings squeeze: the lockers' accrued savings outgrow the fees the app has on record while the collector account
		// itself can still pay (somebody sent it coins), then governance changes the rate (which settles every locker)
		{"col.savings_squeeze", 2, func(w *World, r *Rng) *Event {
			ap := auxP(w)
			if ap == nil {
				return nil
			}
			ctx := w.Ctx()
			cur, found := w.App.CollectorKeeper.GetCollectorLookupTable(ctx, w.Cdp.AppID, w.Cdp.Debt.ID)
			if !found {
				return nil
			}
			var biggest sdk.Int
			for _, l := range w.App.LockerKeeper.GetLockers(ctx) {
				if l.AppId == w.Cdp.AppID && l.AssetDepositId == w.Cdp.Debt.ID && (biggest.IsNil() || l.NetBalance.GT(biggest)) {
					biggest = l.NetBalance
				}
			}
			if biggest.IsNil() || biggest.LT(sdk.NewInt(1000)) {
				return nil
			}
			fees := sdk.ZeroInt()
			if nf, ok := w.App.CollectorKeeper.GetNetFeeCollectedData(ctx, w.Cdp.AppID, w.Cdp.Debt.ID); ok {
				fees = nf.NetFeesCollected
			}
			a := w.cdpUser(r)
			bal := w.Bal(a.Addr, w.Cdp.Debt.Denom)
			if bal.LT(sdk.NewInt(100)) {
				return nil
			}
			gift := bal.MulRaw(r.Range(10, 90)).QuoRaw(100)
			mkArgs := func(lsr string) map[string]string {
				return map[string]string{"lsr": lsr, "debt_threshold": cur.DebtThreshold.String(), "surplus_threshold": cur.SurplusThreshold.String(),
					"lot": cur.LotSize.String(), "debt_lot": cur.DebtLotSize.String(), "bid_factor": cur.BidFactor.String()}
			}
			rate := []string{"0.2", "1", "5"}[r.Intn(3)]
			rf, _ := strconv.ParseFloat(rate, 64)
			// time after which the biggest locker has earned about (recorded fees + part of the gift)
			want := new(big.Float).SetInt(fees.Add(gift.MulRaw(r.Range(5, 80)).QuoRaw(100)).BigInt())
			per, _ := new(big.Float).Quo(want, new(big.Float).SetInt(biggest.BigInt())).Float64()
			secs := int64(per / rf * 31557600)
			if secs < 3600 {
				secs = 3600
			}
			if secs > 20*31557600 {
				secs = 20 * 31557600
			}
			first := w.TxEvent("env.unsolicited", a, banktypes.NewMsgSend(a.Addr, w.ModAddr("collectorV1"), sdk.NewCoins(sdk.NewCoin(w.Cdp.Debt.Denom, gift))))
			first.Fault = "env.unsolicited"
			first.then = []*Event{
				{Kind: "admin", Tag: "col.set_lsr", Admin: "aux.update_lookup", Actor: w.Cdp.Admin, Args: mkArgs(rate)},
				{Kind: "block", Tag: "env.timejump", GapS: secs, N: 1, Fault: "clock.gap"},
				{Kind: "admin", Tag: "col.set_lsr", Admin: "aux.update_lookup", Actor: w.Cdp.Admin, Args: mkArgs([]string{"0", "0.02", "0.5"}[r.Intn(3)])},
			}
			w.Stats.Probe("aux.gen.savings_squeeze")
			return first
		}},
		{"col.set_mapping", 1, func(w *World, r *Rng) *Event {
			ap := auxP(w)
			if ap == nil || !ap.FlagFlips {
				return nil
			}
			fl := auxFlagCombos[r.Intn(len(auxFlagCombos))]
			if r.Chance(1, 6) { // illegal combinations must be rejected
				fl = [][3]bool{{true, true, false}, {true, false, true}, {true, true, true}}[r.Intn(3)]
			}
			return &Event{Kind: "admin", Tag: "col.set_mapping", Admin: "aux.set_mapping", Actor: w.Cdp.Admin,
				Args: map[string]string{"surplus": strconv.FormatBool(fl[0]), "debt": strconv.FormatBool(fl[1]), "distributor": strconv.FormatBool(fl[2])}}
		}},
		{"col.surplus_fund", 2, func(w *World, r *Rng) *Event {
			ap := auxP(w)
			if ap == nil {
				return nil
			}
			// what the distributor contract does: ask the chain how much is claimable, then claim it (or part of it)
			if _, found := w.App.CollectorKeeper.GetNetFeeCollectedData(w.Ctx(), w.Cdp.AppID, w.Cdp.Debt.ID); !found {
				return nil // the chain's query dereferences a nil amount when no fee was ever recorded
			}
			c := w.App.CollectorKeeper.WasmCheckSurplusRewardQuery(w.Ctx(), w.Cdp.AppID, w.Cdp.Debt.ID)
			if !c.Amount.IsPositive() {
				return nil
			}
			amt := c.Amount
			if r.Chance(1, 2) {
				amt = posInt(c.Amount.MulRaw(r.Range(1, 99)).QuoRaw(100))
			}
			return &Event{Kind: "admin", Tag: "col.surplus_fund", Admin: "aux.surplus_fund", Actor: w.Cdp.Admin,
				Args: map[string]string{"coin": sdk.NewCoin(c.Denom, amt).String()}}
		}},
		{"eng.bid", 12, func(w *World, r *Rng) *Event {
			ap := auxP(w)
			if ap == nil {
				return nil
			}
			as := w.englishAuctions()
			if len(as) == 0 {
				return nil
			}
			au := as[r.Intn(len(as))]
			lv, found := w.lockedOf(au)
			if !found {
				return nil
			}
			b := w.Actors[pickIdx(r, ap.EngBidders)]
			params, _ := w.App.NewaucKeeper.GetAuctionParams(w.Ctx())
			first := au.ActiveBiddingId == 0
			var coin sdk.Coin
			if lv.InitiatorType == "debt" {
				prev := au.CollateralToken.Amount
				step := params.BidFactor.MulInt(prev).Ceil().TruncateInt()
				var amt sdk.Int
				switch r.Intn(7) {
				case 0:
					amt = prev // equal
				case 1:
					amt = prev.Sub(step) // barely improving
				case 2:
					amt = prev.Sub(step).AddRaw(1) // just not improving
				case 3:
					amt = prev.AddRaw(r.Range(1, 1000)) // worse
				case 4:
					amt = prev.QuoRaw(2)
				default:
					amt = prev.MulRaw(r.Range(50, 98)).QuoRaw(100)
				}
				if first && r.Chance(1, 2) {
					amt = prev.MulRaw(r.Range(60, 100)).QuoRaw(100)
				}
				coin = sdk.NewCoin(au.CollateralToken.Denom, posInt(amt))
			} else {
				prev := au.DebtToken.Amount
				step := params.BidFactor.MulInt(prev).Ceil().TruncateInt()
				var amt sdk.Int
				switch r.Intn(7) {
				case 0:
					amt = prev
				case 1:
					amt = prev.Add(step)
				case 2:
					amt = prev.Add(step).SubRaw(1)
				case 3:
					amt = prev.SubRaw(r.Range(1, 1000))
				case 4:
					amt = prev.MulRaw(2).AddRaw(1)
				default:
					amt = prev.MulRaw(r.Range(102, 150)).QuoRaw(100).AddRaw(1)
				}
				if first {
					amt = sdk.NewInt(r.Range(1, 5_000_000))
				}
				coin = sdk.NewCoin(au.DebtToken.Denom, posInt(amt))
			}
			if r.Chance(1, 20) { // wrong denomination
				coin.Denom = []string{w.Cdp.Debt.Denom, w.Cdp.Gov.Denom, ap.CollAssets[0].Denom}[r.Intn(3)]
			}
			return w.TxEvent("eng.bid", b, &auctionsV2types.MsgPlaceMarketBidRequest{AuctionId: au.AuctionId, Bidder: b.Bech(), Amount: coin})
		}},
		{"limit.deposit", 8, func(w *World, r *Rng) *Event {
			ap := auxP(w)
			if ap == nil || !ap.LimitOn {
				return nil
			}
			users := ap.LimitUsers
			if ap.AttackerOn && r.Chance(1, 4) {
				users = []int{w.Cdp.Attacker}
			}
			a := w.Actors[pickIdx(r, users)]
			bal := w.Bal(a.Addr, w.Cdp.Debt.Denom)
			if !bal.IsPositive() {
				return nil
			}
			coll := ap.CollAssets[r.Intn(len(ap.CollAssets))]
			prem := r.Range(0, 8)
			amt := amtAround(r, w.Cdp.Debt.Decimals, 100, 200000)
			// aim at a live dutch auction: its bucket or one of the next ones, amounts around its remaining debt
			if ds := w.dutchAuctions(); len(ds) > 0 && r.Chance(3, 4) {
				au := ds[r.Intn(len(ds))]
				if c := w.assetByID(au.CollateralAssetId); c != nil {
					coll = c
				}
				bk := dutchBucket(au)
				if bk < 0 {
					bk = 0
				}
				prem = bk + r.Range(0, 3)
				switch r.Intn(5) {
				case 0:
					amt = au.DebtToken.Amount // exactly the remaining debt
				case 1:
					amt = au.DebtToken.Amount.MulRaw(r.Range(101, 300)).QuoRaw(100)
				default:
					amt = au.DebtToken.Amount.MulRaw(r.Range(5, 60)).QuoRaw(100)
				}
			}
			if prem > int64(auctionsV2types.MaxPremiumDiscount) {
				prem = int64(auctionsV2types.MaxPremiumDiscount)
			}
			if r.Chance(1, 25) {
				prem = int64(auctionsV2types.MaxPremiumDiscount) + 1 // must be rejected
			}
			if amt.GT(bal) {
				amt = bal.MulRaw(r.Range(10, 100)).QuoRaw(100)
			}
			ev := w.TxEvent("limit.deposit", a, &auctionsV2types.MsgDepositLimitBidRequest{CollateralTokenId: coll.ID, DebtTokenId: w.Cdp.Debt.ID,
				PremiumDiscount: sdk.NewInt(prem), Bidder: a.Bech(), Amount: sdk.NewCoin(w.Cdp.Debt.Denom, posInt(amt))})
			w.noteLimitMsg(ev) // generators and oracles only scan buckets that a delivered deposit message named
			return ev
		}},
		{"limit.withdraw", 5, func(w *World, r *Rng) *Event {
			ap := auxP(w)
			if ap == nil || !ap.LimitOn {
				return nil
			}
			a := w.Actors[pickIdx(r, ap.LimitUsers)]
			bs := w.limitBidsOf(a.Bech())
			if len(bs) == 0 {
				return nil
			}
			b := bs[r.Intn(len(bs))]
			d := b.DebtToken.Amount
			var amt sdk.Int
			switch r.Intn(6) {
			case 0:
				amt = d // full (routed to cancel)
			case 1:
				amt = d.SubRaw(1)
			case 2:
				amt = sdk.OneInt()
			default:
				amt = d.MulRaw(r.Range(1, 99)).QuoRaw(100)
			}
			return w.TxEvent("limit.withdraw", a, &auctionsV2types.MsgWithdrawLimitBidRequest{CollateralTokenId: b.CollateralTokenId, DebtTokenId: b.DebtTokenId,
				PremiumDiscount: b.PremiumDiscount, Bidder: a.Bech(), Amount: sdk.NewCoin(b.DebtToken.Denom, posInt(amt))})
		}},
		{"limit.cancel", 3, func(w *World, r *Rng) *Event {
			ap := auxP(w)
			if ap == nil || !ap.LimitOn {
				return nil
			}
			users := ap.LimitUsers
			if ap.AttackerOn && r.Chance(1, 5) {
				users = []int{w.Cdp.Attacker}
			}
			a := w.Actors[pickIdx(r, users)]
			bs := w.limitBidsOf(a.Bech())
			if len(bs) == 0 {
				return nil
			}
			b := bs[r.Intn(len(bs))]
			return w.TxEvent("limit.cancel", a, &auctionsV2types.MsgCancelLimitBidRequest{CollateralTokenId: b.CollateralTokenId, DebtTokenId: b.DebtTokenId,
				PremiumDiscount: b.PremiumDiscount, Bidder: a.Bech()})
		}},
		{"atk.limit_withdraw", 4, func(w *World, r *Rng) *Event {
			ap := auxP(w)
			if ap == nil || !ap.LimitOn || !ap.AttackerOn {
				return nil
			}
			a := w.Actors[w.Cdp.Attacker]
			bs := w.limitBidsOf(a.Bech())
			if len(bs) == 0 {
				return nil
			}
			b := bs[r.Intn(len(bs))]
			d := b.DebtToken.Amount
			if !d.IsPositive() {
				d = sdk.OneInt()
			}
			denom := b.DebtToken.Denom
			collDenom := ""
			if c := w.assetByID(b.CollateralTokenId); c != nil {
				collDenom = c.Denom
			}
			switch r.Intn(5) {
			case 0, 1:
			case 2:
				if collDenom != "" {
					denom = collDenom
				}
			case 3:
				denom = w.Cdp.Assets[r.Intn(len(w.Cdp.Assets))].Denom
			case 4:
				denom = "ugarbage"
			}
			mod := w.ModBal(auctionsV2types.ModuleName, denom)
			var amt sdk.Int
			switch r.Intn(6) {
			case 0:
				amt = d.AddRaw(1)
			case 1:
				amt = d.MulRaw(r.Range(2, 20))
			case 2:
				amt = mod // everything the module holds in that denomination
			case 3:
				amt = mod.MulRaw(1000).AddRaw(1) // far more than the module holds
			case 4:
				amt = mod.MulRaw(r.Range(10, 90)).QuoRaw(100)
			default:
				amt = sdk.NewInt(r.Range(1, 1000))
			}
			ev := w.TxEvent("atk.limit_withdraw", a, &auctionsV2types.MsgWithdrawLimitBidRequest{CollateralTokenId: b.CollateralTokenId, DebtTokenId: b.DebtTokenId,
				PremiumDiscount: b.PremiumDiscount, Bidder: a.Bech(), Amount: sdk.NewCoin(denom, posInt(amt))})
			ev.Fault = "atk.limit_withdraw"
			return ev
		}},
	}
}

// ---------- admin ops (what the governance / distributor contracts do through the wasm bindings) ----------

func init() {
	adminOps["aux.update_lookup"] = func(w *World, ev *Event) error {
		geti := func(k string) (sdk.Int, error) {
			v, ok := sdk.NewIntFromString(ev.Args[k])
			if !ok {
				return sdk.Int{}, fmt.Errorf("bad int %s", k)
			}
			return v, nil
		}
		dt, err := geti("debt_threshold")
		if err != nil {
			return err
		}
		st, err := geti("surplus_threshold")
		if err != nil {
			return err
		}
		lot, err := geti("lot")
		if err != nil {
			return err
		}
		dlot, err := geti("debt_lot")
		if err != nil {
			return err
		}
		bf, err := sdk.NewDecFromStr(ev.Args["bid_factor"])
		if err != nil {
			return err
		}
		lsr, err := sdk.NewDecFromStr(ev.Args["lsr"])
		if err != nil {
			return err
		}
		return w.inTxScope(func(ctx sdk.Context) error {
			if ok, msg := w.App.CollectorKeeper.WasmUpdateCollectorLookupTableQuery(ctx, w.Cdp.AppID, w.Cdp.Debt.ID); !ok {
				return fmt.Errorf("%s", msg)
			}
			return w.App.CollectorKeeper.WasmUpdateCollectorLookupTable(ctx, &bindings.MsgUpdateCollectorLookupTable{AppID: w.Cdp.AppID, AssetID: w.Cdp.Debt.ID,
				DebtThreshold: dt, SurplusThreshold: st, LotSize: lot, DebtLotSize: dlot, BidFactor: bf, LSR: lsr})
		})
	}
	adminOps["aux.set_mapping"] = func(w *World, ev *Event) error {
		s, _ := strconv.ParseBool(ev.Args["surplus"])
		d, _ := strconv.ParseBool(ev.Args["debt"])
		di, _ := strconv.ParseBool(ev.Args["distributor"])
		return w.inTxScope(func(ctx sdk.Context) error {
			return w.App.CollectorKeeper.WasmSetAuctionMappingForApp(ctx, &bindings.MsgSetAuctionMappingForApp{AppID: w.Cdp.AppID, AssetIDs: w.Cdp.Debt.ID,
				IsSurplusAuctions: s, IsDebtAuctions: d, IsDistributor: di, AssetOutOraclePrices: false, AssetOutPrices: 1000000})
		})
	}
	adminOps["aux.surplus_fund"] = func(w *World, ev *Event) error {
		c, err := sdk.ParseCoinNormalized(ev.Args["coin"])
		if err != nil {
			return err
		}
		return w.inTxScope(func(ctx sdk.Context) error {
			// the distributor contract claims at most what the chain's own query reports as claimable
			q := w.App.CollectorKeeper.WasmCheckSurplusRewardQuery(ctx, w.Cdp.AppID, w.Cdp.Debt.ID)
			if q.Denom != c.Denom || c.Amount.GT(q.Amount) {
				return fmt.Errorf("not claimable: %s > %s", c, q)
			}
			return w.App.CollectorKeeper.WasmMsgGetSurplusFund(ctx, w.Cdp.AppID, w.Cdp.Debt.ID, w.Actors[ev.Actor].Addr, c)
		})
	}
}

func sortedU64(m map[uint64]bool) []uint64 {
	ks := make([]uint64, 0, len(m))
	for k := range m {
		ks = append(ks, k)
	}
	sort.Slice(ks, func(i, j int) bool { return ks[i] < ks[j] })
	return ks
}
