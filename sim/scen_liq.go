package main

import (
	"fmt"
	"math/big"
	"sort"

	sdk "github.com/cosmos/cosmos-sdk/types"

	auctionsV2types "github.com/comdex-official/comdex/x/auctionsV2/types"
	liqtypes "github.com/comdex-official/comdex/x/liquidationsV2/types"
	vaulttypes "github.com/comdex-official/comdex/x/vault/types"
)

// ---------- set-up ----------

func drawLiqConfig(r *Rng, cfg *Config) {
	k := cfg.Knobs
	k["liq_v2"] = int64(r.Intn(6)) // 0 = app not whitelisted for liquidation
	k["liq_batch"] = []int64{1, 2, 3, 5, 200}[r.Intn(5)]
	k["dutch_on"] = 1
	if r.Chance(1, 10) {
		k["dutch_on"] = 0
	}
	k["auction_secs"] = []int64{30, 120, 600, 3600, 7200}[r.Intn(5)]
	k["keeper_incentive"] = int64(r.Intn(3))
	k["min_usd_left"] = []int64{0, 100000, 1000000}[r.Intn(3)]
}

func setupLiqV2(w *World, r *Rng) {
	cfg := &w.Cfg
	ctx := w.Ctx()
	w.App.NewliqKeeper.SetParams(ctx, liqtypes.NewParams(uint64(cfg.K("liq_batch"))))
	w.App.NewaucKeeper.SetAuctionParams(ctx, auctionsV2types.AuctionParams{
		AuctionDurationSeconds: uint64(cfg.K("auction_secs")), Step: decStr("0.1"),
		WithdrawalFee: []sdk.Dec{sdk.ZeroDec(), decStr("0.005")}[r.Intn(2)], ClosingFee: []sdk.Dec{sdk.ZeroDec(), decStr("0.005")}[r.Intn(2)],
		MinUsdValueLeft: uint64(cfg.K("min_usd_left")), BidFactor: []sdk.Dec{decStr("0.01"), decStr("0.1")}[r.Intn(2)],
		LiquidationPenalty: decStr("0.1"), AuctionBonus: []sdk.Dec{sdk.ZeroDec(), decStr("0.05")}[r.Intn(2)],
	})
	if cfg.K("liq_v2") == 0 {
		return
	}
	prem := []string{"1.05", "1.1", "1.2", "1.3"}[r.Intn(4)]
	disc := []string{"0.5", "0.7", "0.8", "0.9"}[r.Intn(4)]
	inc := []string{"0", "0.1", "0.5"}[cfg.K("keeper_incentive")]
	wl := liqtypes.LiquidationWhiteListing{
		AppId: w.Cdp.AppID, Initiator: true, IsDutchActivated: cfg.KB("dutch_on"),
		DutchAuctionParam:   &liqtypes.DutchAuctionParam{Premium: decStr(prem), Discount: decStr(disc), DecrementFactor: sdk.NewInt(1)},
		IsEnglishActivated:  true,
		EnglishAuctionParam: &liqtypes.EnglishAuctionParam{DecrementFactor: sdk.NewInt(1)},
		KeeeperIncentive:    decStr(inc),
	}
	if err := w.App.NewliqKeeper.WhitelistLiquidation(ctx, wl); err != nil {
		panic(err)
	}
}

// ---------- tracker: observes seizures and settlements block by block ----------

type lockedInfo struct {
	ID, App, Ext, OrigVault uint64
	Type                    string
	Owner                   string
	Coll                    sdk.Coin // seized collateral
	Principal               sdk.Int  // vault principal at seizure (from the harness' own memory of the vault)
	TotalOut                sdk.Int  // principal + interest + closing fee at seizure
	Target                  sdk.Coin
	Fee                     sdk.Int
	AuctionID               uint64
	Height                  int64
	// running account from observed bids
	Paid    sdk.Int
	CollOut sdk.Int
}

type seizureObs struct {
	L        *lockedInfo
	Verdict  string // "unsafe" | "band" | "SAFE" | "unknown"
	Detail   string
	ByKeeper bool
	Auctions int // number of auctions referring to this locked vault right after seizure
	VaultBal sdk.Int
}

type LiqTracker struct {
	prevVaults  map[uint64]vaulttypes.Vault
	locked      map[uint64]*lockedInfo
	lastLocked  uint64
	newSeizures []*seizureObs
	settled     []*lockedInfo
	// liveness: consecutive blocks an open vault has been clearly unsafe with all preconditions holding
	unsafeAge map[uint64]int
	maxAge    int
	// per product: amount by which V2 settlement over-reduced tokens-minted (interest + closing fee of settled vault auctions)
	mintedSkew map[prodKey]sdk.Int
}

func newLiqTracker(w *World) *LiqTracker {
	t := &LiqTracker{prevVaults: map[uint64]vaulttypes.Vault{}, locked: map[uint64]*lockedInfo{}, unsafeAge: map[uint64]int{}, mintedSkew: map[prodKey]sdk.Int{}}
	t.snapshot(w)
	return t
}

func (t *LiqTracker) snapshot(w *World) {
	t.prevVaults = map[uint64]vaulttypes.Vault{}
	for _, v := range w.App.VaultKeeper.GetVaults(w.Ctx()) {
		t.prevVaults[v.Id] = v
	}
}

// crVerdict classifies a vault against MinCr at the prices in force: "unsafe" (clearly below), "SAFE" (clearly at or above), "band", "unknown".
func (w *World) crVerdict(ext uint64, amtIn, totalDebt sdk.Int) (string, string) {
	ctx := w.Ctx()
	ep, ok := w.App.AssetKeeper.GetPairsVault(ctx, ext)
	if !ok {
		return "unknown", ""
	}
	in, out, ok := w.extAssets(ext)
	if !ok {
		return "unknown", ""
	}
	twaIn, f := w.App.MarketKeeper.GetTwa(ctx, in.ID)
	if !f || !twaIn.IsPriceActive {
		return "unknown", "collateral price inactive"
	}
	pout := ep.AssetOutPrice
	if ep.AssetOutOraclePrice {
		t, f := w.App.MarketKeeper.GetTwa(ctx, out.ID)
		if !f || !t.IsPriceActive {
			return "unknown", "debt price inactive"
		}
		pout = t.Twa
	}
	if !totalDebt.IsPositive() || !amtIn.IsPositive() {
		return "unknown", ""
	}
	vin := new(big.Rat).SetFrac(new(big.Int).Mul(amtIn.BigInt(), new(big.Int).SetUint64(twaIn.Twa)), in.Decimals.BigInt())
	vout := new(big.Rat).SetFrac(new(big.Int).Mul(totalDebt.BigInt(), new(big.Int).SetUint64(pout)), out.Decimals.BigInt())
	if vout.Sign() <= 0 || vin.Sign() <= 0 {
		return "unknown", ""
	}
	minCr := new(big.Rat).SetFrac(ep.MinCr.BigInt(), oneE18)
	cr := new(big.Rat).Quo(vin, vout)
	ulp := new(big.Rat).SetFrac(big.NewInt(1), oneE18)
	f64, _ := cr.Float64()
	detail := fmt.Sprintf("collateral %s@%d debt %s@%d ratio %.12f MinCr %s", amtIn, twaIn.Twa, totalDebt, pout, f64, ep.MinCr)
	// most favourable / least favourable on-chain representations
	lo := new(big.Rat).Quo(new(big.Rat).Sub(vin, ulp), new(big.Rat).Add(vout, ulp))
	lo.Sub(lo, ulp)
	voutLo := new(big.Rat).Sub(vout, ulp)
	if voutLo.Sign() <= 0 {
		return "band", detail
	}
	hi := new(big.Rat).Quo(new(big.Rat).Add(vin, ulp), voutLo)
	hi.Add(hi, ulp)
	if hi.Cmp(minCr) < 0 {
		return "unsafe", detail
	}
	if lo.Cmp(minCr) >= 0 {
		return "SAFE", detail
	}
	_ = cr
	return "band", detail
}

// observe is called after every block begin and after every tx.
func (t *LiqTracker) observe(w *World, byKeeper bool, isBlock bool) {
	ctx := w.Ctx()
	lvs := w.App.NewliqKeeper.GetLockedVaults(ctx)
	present := map[uint64]bool{}
	for _, lv := range lvs {
		present[lv.LockedVaultId] = true
		if _, known := t.locked[lv.LockedVaultId]; known {
			continue
		}
		li := &lockedInfo{ID: lv.LockedVaultId, App: lv.AppId, Ext: lv.ExtendedPairId, OrigVault: lv.OriginalVaultId, Type: lv.InitiatorType, Owner: lv.Owner,
			Coll: lv.CollateralToken, TotalOut: lv.DebtToken.Amount, Target: lv.TargetDebt, Fee: lv.FeeToBeCollected, Height: w.Height(), Paid: sdk.ZeroInt(), CollOut: sdk.ZeroInt(), Principal: sdk.ZeroInt()}
		t.locked[li.ID] = li
		w.LiqSeen = true
		if lv.InitiatorType == "vault" {
			obs := &seizureObs{L: li, ByKeeper: byKeeper}
			if pv, ok := t.prevVaults[lv.OriginalVaultId]; ok {
				li.Principal = pv.AmountOut
				// safety verdict on the debt recorded at seizure (principal + interest up to now + closing fee)
				obs.Verdict, obs.Detail = w.crVerdict(lv.ExtendedPairId, pv.AmountIn, lv.DebtToken.Amount)
				if !pv.AmountIn.Equal(lv.CollateralToken.Amount) {
					obs.Verdict, obs.Detail = "COLLATERAL_MISMATCH", fmt.Sprintf("vault recorded %s, seized %s", pv.AmountIn, lv.CollateralToken.Amount)
				}
			} else {
				obs.Verdict = "unknown"
			}
			for _, a := range w.App.NewaucKeeper.GetAuctions(ctx) {
				if a.LockedVaultId == lv.LockedVaultId && a.AppId == lv.AppId {
					obs.Auctions++
					li.AuctionID = a.AuctionId
				}
			}
			t.newSeizures = append(t.newSeizures, obs)
			w.Stats.Probe("liq.vault_seized")
			if byKeeper {
				w.Stats.Probe("liq.vault_seized_by_keeper_msg")
			}
		}
	}
	for id, li := range t.locked {
		if !present[id] {
			t.settled = append(t.settled, li)
			if li.Type == "vault" {
				addTo(t.mintedSkew, prodKey{li.App, li.Ext}, li.TotalOut.Sub(li.Principal))
			}
			delete(t.locked, id)
			w.Stats.Probe("liq.locked_vault_settled")
		}
	}
	sort.Slice(t.settled, func(i, j int) bool { return t.settled[i].ID < t.settled[j].ID })
	if isBlock {
		t.liveness(w)
		t.debug(w)
	}
	t.snapshot(w)
}

// liveness bookkeeping (vaults): age of continuously clearly-unsafe vaults while every precondition holds.
func (t *LiqTracker) liveness(w *World) {
	ctx := w.Ctx()
	cur := map[uint64]bool{}
	for _, v := range w.App.VaultKeeper.GetVaults(ctx) {
		ok := t.livenessPre(w, v.AppId)
		if v.AmountOut.Add(v.InterestAccumulated).Add(v.ClosingFeeAccumulated).BigInt().BitLen() > 61 || v.AmountIn.BigInt().BitLen() > 100 {
			ok = false // outside the int64 range the module's interest arithmetic supports (documented domain restriction)
		}
		verdict := "unknown"
		if ok {
			total := v.AmountOut.Add(v.InterestAccumulated).Add(v.ClosingFeeAccumulated)
			verdict, _ = w.crVerdict(v.ExtendedPairVaultID, v.AmountIn, total)
		}
		if ok && verdict == "unsafe" {
			t.unsafeAge[v.Id]++
			cur[v.Id] = true
			if t.unsafeAge[v.Id] > t.maxAge {
				t.maxAge = t.unsafeAge[v.Id]
			}
		}
	}
	for id := range t.unsafeAge {
		if !cur[id] {
			delete(t.unsafeAge, id)
		}
	}
}

func (t *LiqTracker) livenessPre(w *World, app uint64) bool {
	ctx := w.Ctx()
	wl, found := w.App.NewliqKeeper.GetLiquidationWhiteListing(ctx, app)
	if !found || !wl.IsDutchActivated {
		return false
	}
	if w.esmOn(app) {
		return false
	}
	ks, _ := w.App.EsmKeeper.GetKillSwitchData(ctx, app)
	if ks.BreakerEnable {
		return false
	}
	// the auction needs an active debt price too
	if w.Cdp != nil {
		if twa, f := w.App.MarketKeeper.GetTwa(ctx, w.Cdp.Debt.ID); !f || !twa.IsPriceActive {
			return false
		}
	}
	return true
}

// V2 locked provider for C01/C02.
func init() {
	lockedProvider = func(w *World) lockedView {
		lv := lockedView{coll: map[prodKey]sdk.Int{}, principal: map[prodKey]sdk.Int{}}
		if w.Liq == nil {
			return lv
		}
		ids := make([]uint64, 0, len(w.Liq.locked))
		for id := range w.Liq.locked {
			ids = append(ids, id)
		}
		sort.Slice(ids, func(i, j int) bool { return ids[i] < ids[j] })
		for _, id := range ids {
			li := w.Liq.locked[id]
			if li.Type != "vault" {
				continue
			}
			k := prodKey{li.App, li.Ext}
			addTo(lv.coll, k, li.Coll.Amount)
			addTo(lv.principal, k, li.Principal)
			lv.any = true
		}
		v1Locked(w, &lv)
		return lv
	}
}

// ---------- generators ----------

func liqGens() []OpGen {
	return []OpGen{
		{"liq.keeper_msg", 5, func(w *World, r *Rng) *Event {
			vs := w.App.VaultKeeper.GetVaults(w.Ctx())
			if len(vs) == 0 {
				return nil
			}
			a := w.Actors[w.Cdp.Keeper]
			id := vs[r.Intn(len(vs))].Id
			if r.Chance(1, 10) {
				id = uint64(r.Range(0, 40))
			}
			return w.TxEvent("liq.keeper_msg", a, &liqtypes.MsgLiquidateInternalKeeperRequest{From: a.Bech(), LiqType: 0, Id: id})
		}},
		// anybody may top up the app's reserve for the debt asset; auctions that run out of collateral draw on it
		{"reserve.fund", 2, func(w *World, r *Rng) *Event {
			if w.Cdp == nil || w.Cdp.Debt == nil {
				return nil
			}
			for tries := 0; tries < 5; tries++ {
				a := w.Actors[r.Intn(len(w.Actors))]
				bal := w.Bal(a.Addr, w.Cdp.Debt.Denom)
				if bal.LT(sdk.NewInt(1000)) {
					continue
				}
				amt := bal.MulRaw(r.Range(5, 60)).QuoRaw(100)
				return w.TxEvent("reserve.fund", a, liqtypes.NewMsgAppReserveFundsRequest(a.Bech(), w.Cdp.AppID, w.Cdp.Debt.ID, sdk.NewCoin(w.Cdp.Debt.Denom, amt)))
			}
			return nil
		}},
		{"bid.dutch", 14, func(w *World, r *Rng) *Event {
			as := w.App.NewaucKeeper.GetAuctions(w.Ctx())
			var dutch []auctionsV2types.Auction
			for _, a := range as {
				if a.AuctionType {
					dutch = append(dutch, a)
				}
			}
			if len(dutch) == 0 {
				return nil
			}
			au := dutch[r.Intn(len(dutch))]
			b := w.Actors[w.Cdp.Bidders[r.Intn(len(w.Cdp.Bidders))]]
			var amt sdk.Int
			switch r.Intn(6) {
			case 0:
				amt = sdk.NewInt(r.Range(1, 1000)) // tiny
			case 1:
				amt = au.DebtToken.Amount // exact
			case 2:
				amt = au.DebtToken.Amount.MulRaw(r.Range(101, 300)).QuoRaw(100) // over-sized
			case 3:
				amt = au.DebtToken.Amount.AddRaw(r.Range(-2, 2))
			default:
				amt = au.DebtToken.Amount.MulRaw(r.Range(1, 99)).QuoRaw(100)
			}
			return w.TxEvent("bid.dutch", b, &auctionsV2types.MsgPlaceMarketBidRequest{AuctionId: au.AuctionId, Bidder: b.Bech(), Amount: sdk.NewCoin(au.DebtToken.Denom, posInt(amt))})
		}},
	}
}

// ---------- C09 oracle (vault part) ----------

type c09Oracle struct{}

func (o *c09Oracle) ID() string                  { return "c09.liquidation" }
func (o *c09Oracle) Before(w *World, ev *Event) {}
func (o *c09Oracle) After(w *World, ev *Event, res Result) *Violation {
	t := w.Liq
	if t == nil {
		return nil
	}
	obs := t.newSeizures
	t.newSeizures = nil
	for _, s := range obs {
		w.Stats.Probe("c09.seizure_checked")
		by := "sweep"
		if s.ByKeeper {
			by = "keeper_msg"
		}
		switch s.Verdict {
		case "SAFE":
			return &Violation{Property: "C09", OracleID: "c09.safety", Signature: "safe_vault_seized:" + by,
				Detail: fmt.Sprintf("vault %d (product %d) was seized by %s although it was on the safe side: %s", s.L.OrigVault, s.L.Ext, by, s.Detail)}
		case "COLLATERAL_MISMATCH":
			return &Violation{Property: "C09", OracleID: "c09.seizure_amount", Signature: "collateral_mismatch:" + by, Detail: s.Detail}
		case "band":
			w.Stats.Probe("c09.boundary.seized_in_rounding_band")
		case "unsafe":
			w.Stats.Probe("c09.seizure_clearly_unsafe")
		}
		if s.Auctions != 1 {
			return &Violation{Property: "C09", OracleID: "c09.one_auction", Signature: fmt.Sprintf("auctions=%d:%s", s.Auctions, by),
				Detail: fmt.Sprintf("seizure of vault %d opened %d auctions", s.L.OrigVault, s.Auctions)}
		}
	}
	// bounded liveness: at most two full sweeps of the list (+2 blocks of slack for the block in which the position became unsafe)
	ctx := w.Ctx()
	n := int(w.App.VaultKeeper.GetLengthOfVault(ctx))
	batch := int(w.App.NewliqKeeper.GetParams(ctx).LiquidationBatchSize)
	if batch < 1 {
		batch = 1
	}
	bound := 2*((n+len(t.locked)+batch)/batch) + 2
	ids := make([]uint64, 0, len(t.unsafeAge))
	for id := range t.unsafeAge {
		ids = append(ids, id)
	}
	sort.Slice(ids, func(i, j int) bool { return ids[i] < ids[j] })
	for _, id := range ids {
		if age := t.unsafeAge[id]; age > bound {
			return &Violation{Property: "C09", OracleID: "c09.liveness", Signature: "vault_not_seized",
				Detail: fmt.Sprintf("vault %d has been clearly unsafe for %d consecutive blocks with liquidation enabled, prices active and no emergency control (list length %d, batch %d, bound %d)", id, age, n, batch, bound)}
		}
		if t.unsafeAge[id] > 0 {
			w.Stats.Probe("c09.liveness_clock_running")
		}
	}
	return nil
}

// ---------- C10 oracle (V2 dutch) ----------

type c10Oracle struct {
	pre struct {
		valid                   bool
		auction                 auctionsV2types.Auction
		locked                  liqtypes.LockedVault
		bidderDebt, bidderColl  sdk.Int
		ownerColl               sdk.Int
		debtPrice               uint64
		collDec, debtDec        sdk.Int
		collectorDebt, supply   sdk.Int
		reserveDebt             sdk.Int
		keeperDebt              sdk.Int
		sameOwnerBidder         bool
		keeperIsBidder          bool
	}
	// posted price history per auction: last (startTime, price)
	lastPrice map[uint64]priceObs
	paid      map[uint64]sdk.Int
	collOut   map[uint64]sdk.Int
}

type priceObs struct {
	start int64
	price sdk.Dec
	init  sdk.Dec
}

func newC10() *c10Oracle {
	return &c10Oracle{lastPrice: map[uint64]priceObs{}, paid: map[uint64]sdk.Int{}, collOut: map[uint64]sdk.Int{}}
}

func (o *c10Oracle) ID() string { return "c10.dutch" }

func (o *c10Oracle) Before(w *World, ev *Event) {
	o.pre.valid = false
	if ev.Kind != "tx" {
		return
	}
	msgs, err := w.DecodeMsgs(ev)
	if err != nil || len(msgs) != 1 {
		return
	}
	m, ok := msgs[0].(*auctionsV2types.MsgPlaceMarketBidRequest)
	if !ok {
		return
	}
	ctx := w.Ctx()
	au, err := w.App.NewaucKeeper.GetAuction(ctx, m.AuctionId)
	if err != nil || !au.AuctionType {
		return
	}
	lv, found := w.App.NewliqKeeper.GetLockedVault(ctx, au.AppId, au.LockedVaultId)
	if !found {
		return
	}
	ca, f1 := w.App.AssetKeeper.GetAsset(ctx, au.CollateralAssetId)
	da, f2 := w.App.AssetKeeper.GetAsset(ctx, au.DebtAssetId)
	if !f1 || !f2 {
		return
	}
	twa, _ := w.App.MarketKeeper.GetTwa(ctx, au.DebtAssetId)
	o.pre.debtPrice = twa.Twa
	if lv.IsDebtCmst {
		o.pre.debtPrice = 1000000
	}
	bidder := w.Actors[ev.Actor].Addr
	o.pre.auction, o.pre.locked = au, lv
	o.pre.collDec, o.pre.debtDec = ca.Decimals, da.Decimals
	o.pre.bidderDebt = w.Bal(bidder, au.DebtToken.Denom)
	o.pre.bidderColl = w.Bal(bidder, au.CollateralToken.Denom)
	o.pre.sameOwnerBidder = lv.Owner == bidder.String()
	if owner, err := sdk.AccAddressFromBech32(lv.Owner); err == nil {
		o.pre.ownerColl = w.Bal(owner, au.CollateralToken.Denom)
	} else {
		o.pre.ownerColl = sdk.ZeroInt()
	}
	o.pre.collectorDebt = w.ModBal("collectorV1", au.DebtToken.Denom)
	o.pre.reserveDebt = w.ModBal(liqtypes.ModuleName, au.DebtToken.Denom)
	o.pre.supply = w.Supply(au.DebtToken.Denom)
	o.pre.keeperDebt = sdk.ZeroInt()
	o.pre.keeperIsBidder = false
	if lv.IsInternalKeeper {
		if ka, err := sdk.AccAddressFromBech32(lv.InternalKeeperAddress); err == nil {
			o.pre.keeperDebt = w.Bal(ka, au.DebtToken.Denom)
			o.pre.keeperIsBidder = ka.Equals(bidder)
		}
	}
	o.pre.valid = true
}

func (o *c10Oracle) After(w *World, ev *Event, res Result) *Violation {
	ctx := w.Ctx()
	// posted price: non-increasing between restarts and within [initial*discount, initial]
	for _, au := range w.App.NewaucKeeper.GetAuctions(ctx) {
		if !au.AuctionType {
			continue
		}
		w.Stats.Probe("c10.live_dutch_auction_observed")
		wl, _ := w.App.NewliqKeeper.GetLiquidationWhiteListing(ctx, au.AppId)
		cur := priceObs{start: au.StartTime.UnixNano(), price: au.CollateralTokenAuctionPrice, init: au.CollateralTokenInitialPrice}
		if prev, ok := o.lastPrice[au.AuctionId]; ok {
			if prev.start == cur.start {
				if cur.price.GT(prev.price) {
					return &Violation{Property: "C10", OracleID: "c10.price_monotone", Signature: "price_rose_between_restarts",
						Detail: fmt.Sprintf("auction %d posted price rose from %s to %s without a restart", au.AuctionId, prev.price, cur.price)}
				}
				if cur.price.LT(prev.price) {
					w.Stats.Probe("c10.price_decayed")
				}
			} else {
				w.Stats.Probe("c10.auction_restarted")
			}
		}
		if wl.DutchAuctionParam != nil && wl.DutchAuctionParam.Discount.IsPositive() && wl.DutchAuctionParam.Discount.LT(sdk.OneDec()) {
			end := cur.init.Mul(wl.DutchAuctionParam.Discount)
			// one ulp of slack per multiplication/division in the on-chain 18-decimal arithmetic
			slack := sdk.NewDecWithPrec(1, 12)
			if cur.price.GT(cur.init) || cur.price.LT(end.Sub(slack)) {
				// the end price is reached exactly at EndTime; between EndTime and the restart in the next block the price may not go further
				return &Violation{Property: "C10", OracleID: "c10.price_range", Signature: "price_outside_start_end",
					Detail: fmt.Sprintf("auction %d posted price %s outside [%s, %s]", au.AuctionId, cur.price, end, cur.init)}
			}
		}
		o.lastPrice[au.AuctionId] = cur
	}
	if !o.pre.valid || !res.Tx.OK() {
		return nil
	}
	au, lv := o.pre.auction, o.pre.locked
	bidder := w.Actors[ev.Actor].Addr
	paid := o.pre.bidderDebt.Sub(w.Bal(bidder, au.DebtToken.Denom))
	got := w.Bal(bidder, au.CollateralToken.Denom).Sub(o.pre.bidderColl)
	w.Stats.Probe("c10.bid_checked")
	// over the life of the auction: what all bidders paid plus what the app reserve added never exceeds the target debt
	fromReserve := o.pre.reserveDebt.Sub(w.ModBal(liqtypes.ModuleName, au.DebtToken.Denom))
	if !o.pre.keeperIsBidder && !o.pre.sameOwnerBidder {
		prev, ok := o.paid[au.AuctionId]
		if !ok {
			prev = sdk.ZeroInt()
		}
		tot := prev.Add(paid)
		if fromReserve.IsPositive() {
			w.Stats.Probe("c10.reserve_topped_up_auction")
			if prev.IsPositive() {
				w.Stats.Probe("c10.reserve_topped_up_after_partial_bids")
			}
			tot = tot.Add(fromReserve)
		}
		o.paid[au.AuctionId] = tot
		if tot.GT(lv.TargetDebt.Amount) {
			return &Violation{Property: "C10", OracleID: "c10.bid_total", Signature: "collected_more_than_target",
				Detail: fmt.Sprintf("auction %d: bidders have paid %s in total, the app reserve added %s with this bid, together %s > target debt %s", au.AuctionId, prev.Add(paid), fromReserve, tot, lv.TargetDebt.Amount)}
		}
	} else {
		// payments that cannot be separated from refunds/incentives: stop the running total for this auction
		o.paid[au.AuctionId] = lv.TargetDebt.Amount.Neg()
	}
	_, stillLive := func() (auctionsV2types.Auction, bool) {
		a, err := w.App.NewaucKeeper.GetAuction(ctx, au.AuctionId)
		return a, err == nil
	}()
	ownerGot := sdk.ZeroInt()
	if owner, err := sdk.AccAddressFromBech32(lv.Owner); err == nil && !o.pre.sameOwnerBidder {
		ownerGot = w.Bal(owner, au.CollateralToken.Denom).Sub(o.pre.ownerColl)
	}
	if o.pre.keeperIsBidder {
		// incentive flows back to the bidder: add it back to what was paid
		// (handled below through the collector/supply equation only)
	}
	if o.pre.sameOwnerBidder {
		// owner bidding on its own auction: cannot separate refund from purchase; skip the per-bid price check
		w.Stats.Probe("c10.owner_bid_skipped")
	} else {
		// exchange at the posted price: got <= (paid + bonus) * debtPrice * collDec / (debtDec * auctionPrice) + 1
		if au.CollateralTokenAuctionPrice.IsPositive() {
			// one smallest unit of rounding in either coin: the payment may have been truncated by one debt unit,
			// the collateral rounded by one collateral unit
			num := new(big.Int).Add(paid.BigInt(), au.BonusAmount.BigInt())
			num.Add(num, big.NewInt(1))
			num.Mul(num, new(big.Int).SetUint64(o.pre.debtPrice))
			num.Mul(num, o.pre.collDec.BigInt())
			num.Mul(num, oneE18)
			den := new(big.Int).Mul(o.pre.debtDec.BigInt(), au.CollateralTokenAuctionPrice.BigInt())
			max := new(big.Int).Quo(num, den)
			max.Add(max, big.NewInt(2))
			if got.BigInt().Cmp(max) > 0 && !o.pre.keeperIsBidder {
				return &Violation{Property: "C10", OracleID: "c10.bid_price", Signature: "more_collateral_than_posted_price",
					Detail: fmt.Sprintf("auction %d: bidder paid %s%s (+bonus %s) at posted price %s (debt price %d) and received %s%s, more than %s", au.AuctionId, paid, au.DebtToken.Denom, au.BonusAmount, au.CollateralTokenAuctionPrice, o.pre.debtPrice, got, au.CollateralToken.Denom, max)}
			}
		}
		if paid.GT(au.DebtToken.Amount) && !o.pre.keeperIsBidder {
			return &Violation{Property: "C10", OracleID: "c10.bid_total", Signature: "paid_more_than_remaining_debt",
				Detail: fmt.Sprintf("auction %d: bidder paid %s, remaining target was %s", au.AuctionId, paid, au.DebtToken.Amount)}
		}
		if got.GT(au.CollateralToken.Amount) {
			return &Violation{Property: "C10", OracleID: "c10.bid_total", Signature: "received_more_than_remaining_collateral",
				Detail: fmt.Sprintf("auction %d: bidder received %s, remaining collateral was %s", au.AuctionId, got, au.CollateralToken.Amount)}
		}
	}
	if !stillLive && lv.InitiatorType == "vault" && !o.pre.sameOwnerBidder {
		w.Stats.Probe("c10.auction_closed_checked")
		// collateral: remaining == to bidder + to owner
		if !au.CollateralToken.Amount.Equal(got.Add(ownerGot)) {
			return &Violation{Property: "C10", OracleID: "c10.close_collateral", Signature: "collateral_not_fully_distributed",
				Detail: fmt.Sprintf("auction %d closed: remaining collateral %s, bidder got %s, owner got %s", au.AuctionId, au.CollateralToken.Amount, got, ownerGot)}
		}
		if ownerGot.IsPositive() {
			w.Stats.Probe("c10.owner_refunded")
		}
		// proceeds: total collected (target - remaining + this payment) == burned + to collector + to keeper (+ reserve compensation)
		burned := o.pre.supply.Sub(w.Supply(au.DebtToken.Denom))
		toColl := w.ModBal("collectorV1", au.DebtToken.Denom).Sub(o.pre.collectorDebt)
		toKeeper := sdk.ZeroInt()
		if lv.IsInternalKeeper && !o.pre.keeperIsBidder {
			if ka, err := sdk.AccAddressFromBech32(lv.InternalKeeperAddress); err == nil {
				toKeeper = w.Bal(ka, au.DebtToken.Denom).Sub(o.pre.keeperDebt)
			}
		}
		if !o.pre.keeperIsBidder {
			distributed := burned.Add(toColl).Add(toKeeper)
			if !distributed.Equal(lv.TargetDebt.Amount) {
				return &Violation{Property: "C10", OracleID: "c10.close_proceeds", Signature: "proceeds!=target",
					Detail: fmt.Sprintf("auction %d closed: target debt %s but burned %s + collector %s + keeper %s = %s", au.AuctionId, lv.TargetDebt.Amount, burned, toColl, toKeeper, distributed)}
			}
			if toKeeper.IsPositive() {
				w.Stats.Probe("c10.keeper_incentive_paid")
			}
		}
	}
	return nil
}
