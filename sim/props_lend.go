package main

func init() {
	props["C08"] = &PropSpec{
		ID: "C08", Level: "exploration", Scenarios: []string{"lend"},
		Oracles:   func(w *World) []Oracle { return []Oracle{&c08BooksOracle{}, &c08LtvOracle{}, &lendTrackerPump{}} },
		Quick:     Budget{Runs: 160, MaxEvents: 150},
		Thorough:  Budget{Runs: 2000, MaxEvents: 300},
		Essential: []string{"c08.books_checked_with_borrows", "c08.ltv_checked"},
		BatchProbe: []string{"c08.books_checked_with_borrows", "c08.books_checked_with_liquidated", "c08.ltv_checked", "c08.ltv_crosspool_checked",
			"c08.boundary.ltv_near", "c08.withdraw_checked", "c08.withdraw_with_pledged_collateral", "c08.deposit_borrow_checked", "lend.borrow_seized", "lend.auction_settled"},
		Rule: "one case = one seeded simulated run of the whole app (2 pools x 3-4 assets, 4-8 users + utilisation-steering actor + keeper + 2 bidders; PRNG-scheduled lend / deposit / withdraw / close-lend / borrow (same-pool and cross-pool) / borrow-alternate / deposit-borrow / draw / repay / close-borrow / repay-withdraw / interest-calculation / fund messages, block boundaries with time gaps up to years, moving oracle prices, V2 borrow liquidations and dutch bids); distinct = distinct digest of (event, outcome) sequence; non-trivial = the books identity was evaluated with open borrows and at least one successful borrow/draw was checked against the LTV bound at the prices in force",
		Assume: []string{
			"CometBFT, IBC core and wasm VM are stubbed by the simulator; governance set-up (pools, rate parameters, pairs, e-mode, whitelisting) is applied through keeper entry points",
			"a borrow counts as 'under liquidation / handed over' from the moment its record carries IsLiquidated; it stays in the published id list until its auction settles",
			"LTV bound: compared in exact rationals on the stored record after the message; results inside the rounding band of the 18-decimal representation (cross-pool: plus one smallest unit of each asset involved) are counted, not reported",
			"a draw on a cross-pool borrow is held to the collateral asset's own (e-mode aware) LTV, the weaker of the two readings of 'applicable'; draws above the chained LTV are counted in probe c08.ltv.crosspool_draw_above_chained_ltv",
			"deposit-borrow adds collateral without a new loan: only the pledge accounting is checked, not the LTV bound",
			"asset decimals 6 or 8 and amounts inside the int64 range the module's arithmetic supports",
		},
	}
	props["C09L"] = &PropSpec{
		ID: "C09L", Level: "exploration", Scenarios: []string{"lend"},
		Oracles:   func(w *World) []Oracle { return []Oracle{&c09LendOracle{}} },
		Quick:     Budget{Runs: 160, MaxEvents: 160},
		Thorough:  Budget{Runs: 2000, MaxEvents: 300},
		Essential: []string{"c09l.seizure_checked"},
		BatchProbe: []string{"c09l.seizure_checked", "c09l.seizure_clearly_unsafe", "lend.borrow_seized_by_keeper_msg", "c09l.liveness_clock_running", "lend.auction_settled"},
		TweakCfg: func(r *Rng, cfg *Config) {
			cfg.Knobs["liq_v2"] = 1
			if r.Bool() {
				cfg.Knobs["liq_batch"] = []int64{1, 1, 2}[r.Intn(3)] // slow sweeps: keeper messages and the liveness bound matter
			}
			cfg.Knobs["path_mode"] = []int64{pathCrash, pathSaw, pathWalk, pathCrash}[r.Intn(4)]
			if cfg.Knobs["vol"] < 8 {
				cfg.Knobs["vol"] = 8 + r.Range(0, 17)
			}
		},
		Rule: "one case = one seeded simulated run of the lend scenario with falling / oscillating oracle paths, sweep batch sizes 1..200, keeper messages (LiqType 1) on safe and unsafe borrow ids and owners opening/closing other positions between sweeps; distinct = distinct digest of (event, outcome) sequence; non-trivial = at least one borrow seizure was checked for safety (exact debt/collateral ratio vs the applicable threshold at the price in force), for the bank deltas of pool and auction accounts and for opening exactly one auction",
		Assume: []string{
			"liveness is bounded-step: a borrow's clock runs only while the app is whitelisted with dutch auctions enabled, every oracle price is active, no breaker is on, and the stored record (principal + stored interest truncated to whole units, a lower bound of the real debt) is clearly above the applicable threshold; bound = 2*ceil(L/batch)+2 blocks with L the published borrow list length",
			"a seizure inside the 18-decimal rounding band is counted, not reported",
			"helper id: merged into C09 by the main harness",
		},
	}
	props["C18L"] = &PropSpec{
		ID: "C18L", Level: "exploration", Scenarios: []string{"lend"},
		Oracles:   func(w *World) []Oracle { return []Oracle{&c18LendAccrual{}, &c18LendRates{}, &lendTrackerPump{}} },
		Quick:     Budget{Runs: 160, MaxEvents: 150},
		Thorough:  Budget{Runs: 2000, MaxEvents: 300},
		Essential: []string{"c18l.calc_checked", "c18l.rate_pairs_compared"},
		BatchProbe: []string{"c18l.calc_checked", "c18l.zero_time_checked", "c18l.interest_accrued", "c18l.reward_paid", "c18l.rate_pairs_compared",
			"c18l.rate_zero_util_checked", "c18l.rate_at_or_above_kink_observed", "c18l.rate_near_kink_observed", "c18l.rate_three_or_more_utilisations"},
		TweakCfg: func(r *Rng, cfg *Config) {
			if cfg.Knobs["gap_profile"] == 0 {
				cfg.Knobs["gap_profile"] = 1 + int64(r.Intn(3))
			}
		},
		Rule: "one case = one seeded simulated run of the lend scenario with time gaps from 0 s to years and a utilisation-steering actor that lands pools at 0, just below / at / just above the optimal utilisation; distinct = distinct digest of (event, outcome) sequence; non-trivial = at least one interest-calculation message was checked on position records and at least one pair of observed (utilisation, rate) points with equal parameters was compared",
		Assume: []string{
			"accrual: non-negativity and zero-over-zero-time are read off stored position records and carried fractions before/after MsgCalculateInterestAndRewards, MsgDraw and MsgDepositBorrow; monotonicity in time/principal/rate and additivity (twin worlds) are not checked here",
			"rate model: rates are read through the keeper getters behind the queries; only observed values are compared with each other and with the configured base; continuity at the kink is not asserted (only counted when a point within 1e-6 of the optimum is observed)",
			"a decrease of at most 4e-18 between neighbouring utilisations is counted as rounding band, not reported",
		},
	}
}

// lendTrackerPump keeps the seizure tracker's tx observations running for properties that do not include the C09 borrow oracle
// (probes lend.borrow_seized / lend.auction_settled); it never reports.
type lendTrackerPump struct{}

func (o *lendTrackerPump) ID() string { return "lend.tracker" }
func (o *lendTrackerPump) Before(w *World, ev *Event) {
	if t, ok := w.X["lend.liq"].(*lendLiqTracker); ok {
		t.snapshot(w)
	}
}
func (o *lendTrackerPump) After(w *World, ev *Event, res Result) *Violation {
	if t, ok := w.X["lend.liq"].(*lendLiqTracker); ok {
		if ev.Kind == "tx" {
			t.observe(w, true)
		}
		t.newSeizures = nil
		t.issues = nil
	}
	return nil
}
