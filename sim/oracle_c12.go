package main

import (
	"os"
	"encoding/json"
	"fmt"
	"strings"

	wasmvmtypes "github.com/CosmWasm/wasmvm/types"
	sdk "github.com/cosmos/cosmos-sdk/types"

	comdexwasm "github.com/comdex-official/comdex/app/wasm"
	"github.com/comdex-official/comdex/app/wasm/bindings"
	esmtypes "github.com/comdex-official/comdex/x/esm/types"
	lendtypes "github.com/comdex-official/comdex/x/lend/types"
	liquiditytypes "github.com/comdex-official/comdex/x/liquidity/types"
	lockertypes "github.com/comdex-official/comdex/x/locker/types"
	vaulttypes "github.com/comdex-official/comdex/x/vault/types"
)

// ---------- attacker generators: every message type that names someone else's position ----------

// governance contracts of the main and test networks (configuration named by the property; used as candidate senders)
var designatedContracts = map[string][]string{
	"comdex-1":     {"comdex17p9rzwnnfxcjp32un9ug7yhhzgtkhvl9jfksztgw5uh69wac2pgs4jg6dx", "comdex1nc5tatafv6eyq7llkr2gv50ff9e22mnf70qgjlv737ktmt4eswrqdfklyz"},
	"comdex-test3": {"comdex1qwlgtx52gsdu7dtp0cekka5zehdl0uj3fhp9acg325fvgs8jdzksjvgq6q", "comdex1ghd753shjuwexxywmgs4xz7x2q732vcnkm6h2pyv9s6ah3hylvrqfy9rd8"},
}

func (w *World) nonOwner(r *Rng, owner string) *Actor {
	for tries := 0; tries < 8; tries++ {
		a := w.Actors[r.Intn(len(w.Actors))]
		if a.Bech() != owner {
			return a
		}
	}
	return nil
}

func attackEvent(w *World, tag string, a *Actor, owner string, m sdk.Msg) *Event {
	ev := w.TxEvent("attack."+tag, a, m)
	ev.Args = map[string]string{"owner": owner}
	return ev
}

func c12AttackGens() []OpGen {
	return []OpGen{
		{"attack.vault", 10, func(w *World, r *Rng) *Event {
			vs := w.App.VaultKeeper.GetVaults(w.Ctx())
			if len(vs) == 0 {
				return nil
			}
			v := vs[r.Intn(len(vs))]
			a := w.nonOwner(r, v.Owner)
			// half of the time the attacker is someone who owns a vault of its own in the same product (an ownership test that
			// only asks "does the signer have a vault here" would let it through)
			if r.Bool() {
				for _, o := range vs {
					if o.Id != v.Id && o.AppId == v.AppId && o.ExtendedPairVaultID == v.ExtendedPairVaultID && o.Owner != v.Owner {
						if i := w.actorIdx(o.Owner); i >= 0 {
							a = w.Actors[i]
							w.Stats.Probe("c12.attacker_owns_a_vault_in_the_same_product")
							break
						}
					}
				}
			}
			if a == nil {
				return nil
			}
			amt := posInt(v.AmountIn.QuoRaw(r.Range(2, 50)))
			switch r.Intn(5) {
			case 0:
				return attackEvent(w, "vault.withdraw", a, v.Owner, &vaulttypes.MsgWithdrawRequest{From: a.Bech(), AppId: v.AppId, ExtendedPairVaultId: v.ExtendedPairVaultID, UserVaultId: v.Id, Amount: amt})
			case 1:
				return attackEvent(w, "vault.draw", a, v.Owner, &vaulttypes.MsgDrawRequest{From: a.Bech(), AppId: v.AppId, ExtendedPairVaultId: v.ExtendedPairVaultID, UserVaultId: v.Id, Amount: sdk.NewInt(r.Range(1, 1000))})
			case 2:
				return attackEvent(w, "vault.close", a, v.Owner, &vaulttypes.MsgCloseRequest{From: a.Bech(), AppId: v.AppId, ExtendedPairVaultId: v.ExtendedPairVaultID, UserVaultId: v.Id})
			case 3:
				return attackEvent(w, "vault.deposit_draw", a, v.Owner, &vaulttypes.MsgDepositAndDrawRequest{From: a.Bech(), AppId: v.AppId, ExtendedPairVaultId: v.ExtendedPairVaultID, UserVaultId: v.Id, Amount: sdk.NewInt(r.Range(1, 100000))})
			default:
				// same message the owner could send, with the owner's address in From but signed by someone else is
				// rejected by signature verification; here: the attacker names the victim's vault id under its own product mapping
				return attackEvent(w, "vault.withdraw_all", a, v.Owner, &vaulttypes.MsgWithdrawRequest{From: a.Bech(), AppId: v.AppId, ExtendedPairVaultId: v.ExtendedPairVaultID, UserVaultId: v.Id, Amount: posInt(v.AmountIn.SubRaw(1))})
			}
		}},
		{"attack.locker", 6, func(w *World, r *Rng) *Event {
			ls := w.App.LockerKeeper.GetLockers(w.Ctx())
			if len(ls) == 0 {
				return nil
			}
			l := ls[r.Intn(len(ls))]
			a := w.nonOwner(r, l.Depositor)
			if a == nil {
				return nil
			}
			if r.Bool() {
				return attackEvent(w, "locker.withdraw", a, l.Depositor, &lockertypes.MsgWithdrawAssetRequest{Depositor: a.Bech(), LockerId: l.LockerId, Amount: posInt(l.NetBalance.QuoRaw(r.Range(1, 10))), AssetId: l.AssetDepositId, AppId: l.AppId})
			}
			return attackEvent(w, "locker.close", a, l.Depositor, &lockertypes.MsgCloseLockerRequest{Depositor: a.Bech(), AppId: l.AppId, AssetId: l.AssetDepositId, LockerId: l.LockerId})
		}},
		{"attack.lend", 8, func(w *World, r *Rng) *Event {
			ctx := w.Ctx()
			ls := w.App.LendKeeper.GetAllLend(ctx)
			if len(ls) == 0 {
				return nil
			}
			l := ls[r.Intn(len(ls))]
			a := w.nonOwner(r, l.Owner)
			if a == nil {
				return nil
			}
			switch r.Intn(3) {
			case 0:
				return attackEvent(w, "lend.withdraw", a, l.Owner, &lendtypes.MsgWithdraw{Lender: a.Bech(), LendId: l.ID, Amount: sdk.NewCoin(l.AmountIn.Denom, posInt(l.AvailableToBorrow.QuoRaw(r.Range(1, 10))))})
			case 1:
				return attackEvent(w, "lend.close", a, l.Owner, &lendtypes.MsgCloseLend{Lender: a.Bech(), LendId: l.ID})
			default:
				// borrow against someone else's lend position
				pairs := w.App.LendKeeper.GetLendPairs(ctx)
				if len(pairs) == 0 {
					return nil
				}
				p := pairs[r.Intn(len(pairs))]
				out, ok := w.App.AssetKeeper.GetAsset(ctx, p.AssetOut)
				if !ok {
					return nil
				}
				return attackEvent(w, "lend.borrow_on_foreign_lend", a, l.Owner, &lendtypes.MsgBorrow{Borrower: a.Bech(), LendId: l.ID, PairId: p.Id,
					AmountIn: sdk.NewCoin("uc"+strings.TrimPrefix(l.AmountIn.Denom, "u"), posInt(l.AvailableToBorrow.QuoRaw(4))), AmountOut: sdk.NewCoin(out.Denom, sdk.NewInt(r.Range(1000, 100000)))})
			}
		}},
		{"attack.borrow", 8, func(w *World, r *Rng) *Event {
			ctx := w.Ctx()
			bs := w.App.LendKeeper.GetAllBorrow(ctx)
			if len(bs) == 0 {
				return nil
			}
			b := bs[r.Intn(len(bs))]
			l, ok := w.App.LendKeeper.GetLend(ctx, b.LendingID)
			if !ok {
				return nil
			}
			a := w.nonOwner(r, l.Owner)
			if a == nil {
				return nil
			}
			switch r.Intn(4) {
			case 0:
				return attackEvent(w, "borrow.draw", a, l.Owner, &lendtypes.MsgDraw{Borrower: a.Bech(), BorrowId: b.ID, Amount: sdk.NewCoin(b.AmountOut.Denom, sdk.NewInt(r.Range(1, 10000)))})
			case 1:
				return attackEvent(w, "borrow.close", a, l.Owner, &lendtypes.MsgCloseBorrow{Borrower: a.Bech(), BorrowId: b.ID})
			case 2:
				return attackEvent(w, "borrow.repay_withdraw", a, l.Owner, &lendtypes.MsgRepayWithdraw{Borrower: a.Bech(), BorrowId: b.ID})
			default:
				return attackEvent(w, "borrow.deposit_borrow", a, l.Owner, &lendtypes.MsgDepositBorrow{Borrower: a.Bech(), BorrowId: b.ID, Amount: sdk.NewCoin(b.AmountIn.Denom, sdk.NewInt(r.Range(1, 10000)))})
			}
		}},
		{"attack.order", 8, func(w *World, r *Rng) *Event {
			ctx := w.Ctx()
			apps, _ := w.App.AssetKeeper.GetApps(ctx)
			var all []liquiditytypes.Order
			var appOf []uint64
			for _, ap := range apps {
				for _, o := range w.App.LiquidityKeeper.GetAllOrders(ctx, ap.Id) {
					all = append(all, o)
					appOf = append(appOf, ap.Id)
				}
			}
			if len(all) == 0 {
				return nil
			}
			i := r.Intn(len(all))
			o := all[i]
			a := w.nonOwner(r, o.Orderer)
			if a == nil {
				return nil
			}
			return attackEvent(w, "order.cancel", a, o.Orderer, &liquiditytypes.MsgCancelOrder{Orderer: a.Bech(), AppId: appOf[i], PairId: o.PairId, OrderId: o.Id})
		}},
		{"priv.killswitch", 4, func(w *World, r *Rng) *Event {
			apps, _ := w.App.AssetKeeper.GetApps(w.Ctx())
			if len(apps) == 0 {
				return nil
			}
			app := apps[r.Intn(len(apps))].Id
			a := w.Actors[r.Intn(len(w.Actors))]
			ev := w.TxEvent("priv.killswitch", a, &esmtypes.MsgKillRequest{From: a.Bech(), KillSwitchParams: &esmtypes.KillSwitchParams{AppId: app, BreakerEnable: r.Chance(1, 3)}})
			return ev
		}},
		{"priv.wasm", 10, func(w *World, r *Rng) *Event {
			variants := wasmVariants(w, r)
			v := variants[r.Intn(len(variants))]
			// prefer a message that the designated contract would get accepted right now (dry run on a discarded branch), so
			// that for a stranger only the sender guard stands between the message and its effect
			if des, ok := designatedContracts[w.Cfg.ChainID]; ok && !r.Chance(1, 4) {
				start := r.Intn(len(variants))
				for i := 0; i < 8; i++ {
					c := variants[(start+i)%len(variants)]
					if os.Getenv("VERIF_DEBUG_C12") == "2" && strings.HasPrefix(c.name, "emission") {
						fmt.Printf("C12DRY %s: %v | %v\n", c.name, w.wasmDispatch(des[0], c.json, false), w.wasmDispatch(des[1], c.json, false))
					}
					if w.wasmDispatch(des[0], c.json, false) == nil || w.wasmDispatch(des[1], c.json, false) == nil {
						v = c
						w.Stats.Probe("c12.gen.message_acceptable_from_designated")
						break
					}
				}
			}
			var sender string
			switch r.Intn(6) {
			case 0:
				sender = designatedContracts["comdex-1"][r.Intn(2)]
			case 1:
				sender = designatedContracts["comdex-test3"][r.Intn(2)]
			case 2:
				if d, ok := designatedContracts[w.Cfg.ChainID]; ok {
					sender = d[r.Intn(2)]
				} else {
					sender = w.Actors[r.Intn(len(w.Actors))].Bech()
				}
			default:
				sender = w.Actors[r.Intn(len(w.Actors))].Bech()
			}
			return &Event{Kind: "admin", Admin: "wasm_dispatch", Tag: "priv.wasm." + v.name, Args: map[string]string{"sender": sender, "msg": v.json, "variant": v.name}}
		}},
	}
}

type wasmVariant struct{ name, json string }

func wasmVariants(w *World, r *Rng) []wasmVariant {
	ctx := w.Ctx()
	app := uint64(1)
	if apps, ok := w.App.AssetKeeper.GetApps(ctx); ok && len(apps) > 0 {
		app = apps[r.Intn(len(apps))].Id
	}
	assets := w.App.AssetKeeper.GetAssets(ctx)
	var asset = func() uint64 {
		if len(assets) == 0 {
			return 1
		}
		return assets[r.Intn(len(assets))].Id
	}
	ext := uint64(1)
	pool := uint64(1)
	cswap := app
	// mostly aim at the records the scenario really has, so that the privileged path would accept the message
	if w.Cdp != nil && !r.Chance(1, 4) {
		app = w.Cdp.AppID
		cswap = app
		if len(w.Cdp.Products) > 0 {
			ext = w.Cdp.Products[r.Intn(len(w.Cdp.Products))].ExtID
		}
		if w.Cdp.Debt != nil && r.Bool() {
			id := w.Cdp.Debt.ID
			asset = func() uint64 { return id }
		}
	}
	if w.Dex != nil && !r.Chance(1, 4) {
		cswap = w.Dex.AppID
		if ps := w.App.LiquidityKeeper.GetAllPools(ctx, cswap); len(ps) > 0 {
			pool = ps[r.Intn(len(ps))].Id
		}
	}
	// messages that mint or burn the app's governance token need an app that has one
	gov := app
	if apps, ok := w.App.AssetKeeper.GetApps(ctx); ok && !r.Chance(1, 5) {
		for _, a := range apps {
			for _, t := range a.GenesisToken {
				if t.IsGovToken {
					gov = a.Id
				}
			}
		}
	}
	one := sdk.NewInt(1000)
	d := decStr("0.01")
	addr := w.Actors[0].Addr
	// address fields inside a payload: usually some account, sometimes the designated contract itself (a guard that looks at
	// the payload instead of the sender would be satisfied by it)
	payloadAddr := addr
	if des, ok := designatedContracts[w.Cfg.ChainID]; ok && r.Bool() {
		if a, err := sdk.AccAddressFromBech32(des[[]int{0, 1, 1, 1}[r.Intn(4)]]); err == nil {
			payloadAddr = a
		}
	}
	ms := []struct {
		n string
		m bindings.ComdexMessages
	}{
		{"white_list_asset_locker", bindings.ComdexMessages{MsgWhiteListAssetLocker: &bindings.MsgWhiteListAssetLocker{AppID: app, AssetID: asset()}}},
		{"whitelist_app_id_vault_interest", bindings.ComdexMessages{MsgWhitelistAppIDVaultInterest: &bindings.MsgWhitelistAppIDVaultInterest{AppID: app}}},
		{"whitelist_app_id_locker_rewards", bindings.ComdexMessages{MsgWhitelistAppIDLockerRewards: &bindings.MsgWhitelistAppIDLockerRewards{AppID: app, AssetID: asset()}}},
		{"add_extended_pairs_vault", bindings.ComdexMessages{MsgAddExtendedPairsVault: &bindings.MsgAddExtendedPairsVault{AppID: app, PairID: 1, StabilityFee: d, ClosingFee: d, LiquidationPenalty: d, DrawDownFee: d, IsVaultActive: true, DebtCeiling: one.MulRaw(1000000), DebtFloor: one, MinCr: decStr("1.5"), PairName: "ATTACK-X", AssetOutPrice: 1000000}}},
		{"set_collector_lookup_table", bindings.ComdexMessages{MsgSetCollectorLookupTable: &bindings.MsgSetCollectorLookupTable{AppID: app, CollectorAssetID: asset(), SecondaryAssetID: asset(), SurplusThreshold: one, DebtThreshold: one, LockerSavingRate: d, LotSize: one, BidFactor: d, DebtLotSize: one}}},
		{"set_auction_mapping_for_app", bindings.ComdexMessages{MsgSetAuctionMappingForApp: &bindings.MsgSetAuctionMappingForApp{AppID: app, AssetIDs: asset(), IsSurplusAuctions: true}}},
		{"update_pairs_vault", bindings.ComdexMessages{MsgUpdatePairsVault: &bindings.MsgUpdatePairsVault{AppID: app, ExtPairID: 1, StabilityFee: d, ClosingFee: d, LiquidationPenalty: d, DrawDownFee: d, IsVaultActive: true, MinCr: decStr("1.01"), DebtCeiling: one.MulRaw(1000000000), DebtFloor: one}}},
		{"update_collector_lookup_table", bindings.ComdexMessages{MsgUpdateCollectorLookupTable: &bindings.MsgUpdateCollectorLookupTable{AppID: app, AssetID: asset(), DebtThreshold: one, SurplusThreshold: one, LotSize: one, DebtLotSize: one, BidFactor: d, LSR: d}}},
		{"remove_whitelist_asset_locker", bindings.ComdexMessages{MsgRemoveWhitelistAssetLocker: &bindings.MsgRemoveWhitelistAssetLocker{AppID: app, AssetID: asset()}}},
		{"remove_whitelist_app_id_vault_interest", bindings.ComdexMessages{MsgRemoveWhitelistAppIDVaultInterest: &bindings.MsgRemoveWhitelistAppIDVaultInterest{AppMappingID: app}}},
		{"whitelist_app_id_liquidation", bindings.ComdexMessages{MsgWhitelistAppIDLiquidation: &bindings.MsgWhitelistAppIDLiquidation{AppID: app}}},
		{"remove_whitelist_app_id_liquidation", bindings.ComdexMessages{MsgRemoveWhitelistAppIDLiquidation: &bindings.MsgRemoveWhitelistAppIDLiquidation{AppID: app}}},
		{"add_auction_params", bindings.ComdexMessages{MsgAddAuctionParams: &bindings.MsgAddAuctionParams{AppID: app, AuctionDurationSeconds: 100, Buffer: decStr("1.2"), Cusp: decStr("0.7"), Step: 1, PriceFunctionType: 1, SurplusID: 1, DebtID: 2, DutchID: 3, BidDurationSeconds: 50}}},
		{"burn_gov_tokens_for_app", bindings.ComdexMessages{MsgBurnGovTokensForApp: &bindings.MsgBurnGovTokensForApp{AppID: app, From: addr, Amount: sdk.NewCoin("uharbor", one)}}},
		{"add_esm_trigger_params", bindings.ComdexMessages{MsgAddESMTriggerParams: &bindings.MsgAddESMTriggerParams{AppID: app, TargetValue: sdk.NewCoin("uharbor", one), CoolOffPeriod: 100, AssetID: []uint64{asset()}, Rates: []uint64{1000000}}}},
		{"emission_rewards", bindings.ComdexMessages{MsgEmissionRewards: &bindings.MsgEmissionRewards{AppID: gov, Amount: one, EmissionAmount: 1, ExtendedPair: []uint64{ext}, VotingRatio: []sdk.Int{one}}}},
		{"foundation_emission", bindings.ComdexMessages{MsgFoundationEmission: &bindings.MsgFoundationEmission{AppID: gov, Amount: one, FoundationAddress: []string{addr.String()}}}},
		{"rebase_mint", bindings.ComdexMessages{MsgRebaseMint: &bindings.MsgRebaseMint{AppID: gov, Amount: one, ContractAddr: payloadAddr}}},
		{"get_surplus_fund", bindings.ComdexMessages{MsgGetSurplusFund: &bindings.MsgGetSurplusFund{AppID: app, AssetID: asset(), ContractAddr: payloadAddr, Amount: sdk.NewCoin("ucmst", one)}}},
		{"emission_pool_rewards", bindings.ComdexMessages{MsgEmissionPoolRewards: &bindings.MsgEmissionPoolRewards{AppID: gov, CswapAppID: cswap, Amount: one, Pools: []uint64{pool}, VotingRatio: []sdk.Int{one}}}},
	}
	out := make([]wasmVariant, 0, len(ms))
	for _, x := range ms {
		bz, err := json.Marshal(x.m)
		if err != nil {
			panic(err)
		}
		out = append(out, wasmVariant{x.n, string(bz)})
	}
	return out
}

type noopMessenger struct{}

func (noopMessenger) DispatchMsg(ctx sdk.Context, contractAddr sdk.AccAddress, contractIBCPortID string, msg wasmvmtypes.CosmosMsg) ([]sdk.Event, [][]byte, error) {
	return nil, nil, fmt.Errorf("verif: not a comdex custom message")
}

func init() {
	adminOps["wasm_dispatch"] = func(w *World, ev *Event) (err error) {
		return w.wasmDispatch(ev.Args["sender"], ev.Args["msg"], true)
	}
}

// wasmDispatch hands a custom contract message to the app's message plugin as contract `sender`. A contract call is one
// message of a transaction: atomic. With commit=false the effects are discarded (dry run used by the generator).
func (w *World) wasmDispatch(senderBech, msg string, commit bool) (err error) {
	sender, e := sdk.AccAddressFromBech32(senderBech)
	if e != nil {
		return e
	}
	a := w.App
	m := comdexwasm.CustomMessageDecorator(a.LockerKeeper, a.Rewardskeeper, a.AssetKeeper, a.CollectorKeeper, a.LiquidationKeeper, a.AuctionKeeper,
		a.TokenmintKeeper, a.EsmKeeper, a.VaultKeeper, a.LiquidityKeeper)(noopMessenger{})
	base := w.Ctx()
	if commit {
		base = w.WCtx()
	}
	cctx, write := base.CacheContext()
	defer func() {
		if r := recover(); r != nil {
			err = fmt.Errorf("panic: %v", r)
		}
	}()
	_, _, err = m.DispatchMsg(cctx, sender, "", wasmvmtypes.CosmosMsg{Custom: json.RawMessage(msg)})
	if err == nil && commit {
		write()
	}
	return err
}

// ---------- oracle ----------

type c12Oracle struct {
	pre struct {
		kind  string // attack | killswitch | wasm
		hash  map[string]string
		owner string
		admin bool
	}
}

func (o *c12Oracle) ID() string { return "c12.authority" }

func (o *c12Oracle) Before(w *World, ev *Event) {
	o.pre.kind = ""
	switch {
	case ev.Kind == "tx" && strings.HasPrefix(ev.Tag, "attack."):
		o.pre.kind = "attack"
		o.pre.owner = ev.Args["owner"]
	case ev.Kind == "tx" && ev.Tag == "priv.killswitch":
		o.pre.kind = "killswitch"
		o.pre.admin = false
		signer := w.Actors[ev.Actor].Bech()
		for _, a := range w.App.EsmKeeper.GetParams(w.Ctx()).Admin {
			if a == signer {
				o.pre.admin = true
			}
		}
	case ev.Kind == "admin" && ev.Admin == "wasm_dispatch":
		o.pre.kind = "wasm"
	default:
		return
	}
	o.pre.hash = hashAllStores(w, w.WCtx())
}

func (o *c12Oracle) changed(w *World) string {
	after := hashAllStores(w, w.WCtx())
	for _, k := range sortedKeys(o.pre.hash) {
		if k == "acc" || k == "wasm" {
			continue // ante-handler bookkeeping of every delivered tx: the signer's sequence number (auth) and the per-block tx counter (wasm store; no contracts exist)
		}
		if o.pre.hash[k] != after[k] {
			return k
		}
	}
	return ""
}

func (o *c12Oracle) After(w *World, ev *Event, res Result) *Violation {
	switch o.pre.kind {
	case "attack":
		if w.Actors[ev.Actor].Bech() == o.pre.owner {
			return nil
		}
		w.Stats.Probe("c12.non_owner_attempt")
		w.Stats.Transition(ev.Tag)
		if res.Tx.OK() {
			return &Violation{Property: "C12", OracleID: "c12.owner", Signature: "non_owner_succeeded:" + strings.TrimPrefix(ev.Tag, "attack."),
				Detail: fmt.Sprintf("%s signed by %s succeeded on a position owned by %s", ev.Tag, w.Actors[ev.Actor].Bech(), o.pre.owner)}
		}
		if res.Tx.Code == 999997 {
			return nil // rejected before reaching a block
		}
		if st := o.changed(w); st != "" {
			return &Violation{Property: "C12", OracleID: "c12.rejected_clean", Signature: "rejected_attempt_changed_state:" + strings.TrimPrefix(ev.Tag, "attack."),
				Detail: fmt.Sprintf("%s by a non-owner was rejected (code %d) but store %q changed", ev.Tag, res.Tx.Code, st)}
		}
	case "killswitch":
		w.Stats.Probe("c12.killswitch_attempt")
		if o.pre.admin {
			if res.Tx.OK() {
				w.Stats.Probe("c12.killswitch_by_admin_accepted")
			}
			return nil
		}
		if res.Tx.OK() {
			return &Violation{Property: "C12", OracleID: "c12.privileged", Signature: "kill_switch_accepted_from_non_admin",
				Detail: fmt.Sprintf("MsgKillSwitch signed by %s (not in the configured admin list) succeeded", w.Actors[ev.Actor].Bech())}
		}
		if st := o.changed(w); st != "" {
			return &Violation{Property: "C12", OracleID: "c12.rejected_clean", Signature: "rejected_attempt_changed_state:killswitch",
				Detail: fmt.Sprintf("rejected MsgKillSwitch changed store %q", st)}
		}
	case "wasm":
		w.Stats.Probe("c12.contract_message_attempt")
		w.Stats.Transition("wasm:" + ev.Args["variant"] + ":" + w.Cfg.ChainID)
		des, guarded := designatedContracts[w.Cfg.ChainID]
		if !guarded {
			return nil // the contract guards are specific to the main and test networks
		}
		authorised := ev.Args["sender"] == des[0] || ev.Args["sender"] == des[1]
		if authorised {
			if res.Err == nil {
				w.Stats.Probe("c12.contract_message_from_designated_accepted")
				w.Stats.Probe("c12.designated_accepted:" + ev.Args["variant"])
			} else if os.Getenv("VERIF_DEBUG_C12") != "" {
				fmt.Printf("C12DEBUG designated %s rejected: %v\n", ev.Args["variant"], res.Err)
			}
			return nil
		}
		w.Stats.Probe("c12.contract_message_from_stranger")
		if res.Err == nil {
			return &Violation{Property: "C12", OracleID: "c12.privileged", Signature: "contract_message_accepted_from_stranger:" + ev.Args["variant"],
				Detail: fmt.Sprintf("on %s the custom message %s was accepted from %s, which is not a designated governance contract", w.Cfg.ChainID, ev.Args["variant"], ev.Args["sender"])}
		}
		if st := o.changed(w); st != "" {
			return &Violation{Property: "C12", OracleID: "c12.rejected_clean", Signature: "rejected_attempt_changed_state:wasm:" + ev.Args["variant"],
				Detail: fmt.Sprintf("rejected custom message %s changed store %q", ev.Args["variant"], st)}
		}
	}
	return nil
}

func c12Gens(base func(w *World) []OpGen) func(w *World) []OpGen {
	return func(w *World) []OpGen { return append(base(w), c12AttackGens()...) }
}
