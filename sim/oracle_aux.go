package main

// Oracles for C11 (bidders' funds) and C13 (savings and fee books) on the cdp scenario.
// Everything is recomputed from observed bank balances and the modules' published records.

import (
	"fmt"
	"math/big"
	"sort"
	"strings"

	sdk "github.com/cosmos/cosmos-sdk/types"

	auctiontypes "github.com/comdex-official/comdex/x/auction/types"
	auctionsV2types "github.com/comdex-official/comdex/x/auctionsV2/types"
	collectortypes "github.com/comdex-official/comdex/x/collector/types"
	liqtypes "github.com/comdex-official/comdex/x/liquidationsV2/types"
	lockertypes "github.com/comdex-official/comdex/x/locker/types"
)

// ---------- snapshot shared by the aux oracles ----------

type auxSnap struct {
	denoms    []string
	bal       map[string]sdk.Int // "<actor idx>|denom"
	mod       map[string]sdk.Int // "<module>|denom" raw bank balance
	unsol     map[string]sdk.Int // "<module>|denom"
	auctions  map[uint64]auctionsV2types.Auction
	aucIDs    []uint64
	locked    map[uint64]liqtypes.LockedVault // by locked vault id
	standing  map[uint64]auctionsV2types.Bid  // english auctions: active bid record by auction id
	limit     map[string]auctionsV2types.LimitOrderBid
	limitKeys []string
	proto     map[string]sdk.Int // "debt|coll" -> BidValue
	protoKeys []string
	feeBooked map[uint64]sdk.Int // debt asset id -> booked limit-bid fees
	netFee    map[string]sdk.Int // "app|asset" (only records that exist)
	lockers   map[uint64]lockertypes.Locker
	lockerIDs []uint64
	lookups   []lockertypes.LockerLookupTableData
	rewardTot sdk.Int
	esm       bool
	hist      map[uint64]auctionsV2types.AuctionHistorical // settled auctions by auction id
	histIDs   []uint64
	aucCtr    uint64 // last auction id handed out
}

// settledSince lists auctions that were settled between two snapshots (also those born inside a multi-block event).
func settledSince(pre, post *auxSnap) []auctionsV2types.AuctionHistorical {
	var out []auctionsV2types.AuctionHistorical
	for _, id := range post.histIDs {
		if _, was := pre.hist[id]; !was {
			out = append(out, post.hist[id])
		}
	}
	return out
}

// openedSince lists (auction, initiator type) of auctions created between two snapshots.
func openedSince(pre, post *auxSnap) (out []auctionsV2types.Auction, kinds []string) {
	for id := pre.aucCtr + 1; id <= post.aucCtr; id++ {
		if a, ok := post.auctions[id]; ok {
			out = append(out, a)
			kinds = append(kinds, post.locked[a.LockedVaultId].InitiatorType)
		} else if h, ok := post.hist[id]; ok && h.AuctionHistorical != nil {
			k := ""
			if h.LockedVault != nil {
				k = h.LockedVault.InitiatorType
			}
			out = append(out, *h.AuctionHistorical)
			kinds = append(kinds, k)
		}
	}
	return out, kinds
}

var auxModules = []string{auctionsV2types.ModuleName, collectortypes.ModuleName, lockertypes.ModuleName, auctiontypes.ModuleName}

func bk(a interface{}, d string) string { return fmt.Sprintf("%v|%s", a, d) }

func (s *auxSnap) B(actor int, denom string) sdk.Int {
	if v, ok := s.bal[bk(actor, denom)]; ok {
		return v
	}
	return sdk.ZeroInt()
}

// M is the module balance net of unsolicited coins.
func (s *auxSnap) M(module, denom string) sdk.Int {
	v, ok := s.mod[bk(module, denom)]
	if !ok {
		return sdk.ZeroInt()
	}
	if u, ok := s.unsol[bk(module, denom)]; ok {
		return v.Sub(u)
	}
	return v
}

func takeAuxSnap(w *World) *auxSnap {
	ctx := w.Ctx()
	s := &auxSnap{bal: map[string]sdk.Int{}, mod: map[string]sdk.Int{}, unsol: map[string]sdk.Int{}, auctions: map[uint64]auctionsV2types.Auction{},
		locked: map[uint64]liqtypes.LockedVault{}, standing: map[uint64]auctionsV2types.Bid{}, limit: map[string]auctionsV2types.LimitOrderBid{},
		proto: map[string]sdk.Int{}, feeBooked: map[uint64]sdk.Int{}, netFee: map[string]sdk.Int{}, lockers: map[uint64]lockertypes.Locker{}, rewardTot: sdk.ZeroInt()}
	for _, a := range w.Cdp.Assets {
		s.denoms = append(s.denoms, a.Denom)
	}
	for _, d := range s.denoms {
		for i := range w.Actors {
			s.bal[bk(i, d)] = w.Bal(w.Actors[i].Addr, d)
		}
		for _, m := range auxModules {
			s.mod[bk(m, d)] = w.ModBal(m, d)
			s.unsol[bk(m, d)] = w.UnsolicitedAmt(w.ModAddr(m), d)
		}
	}
	for _, lv := range w.App.NewliqKeeper.GetLockedVaults(ctx) {
		s.locked[lv.LockedVaultId] = lv
	}
	for _, a := range w.App.NewaucKeeper.GetAuctions(ctx) {
		s.auctions[a.AuctionId] = a
		s.aucIDs = append(s.aucIDs, a.AuctionId)
		if !a.AuctionType && a.ActiveBiddingId != 0 {
			if b, err := w.App.NewaucKeeper.GetUserBid(ctx, a.ActiveBiddingId); err == nil {
				s.standing[a.AuctionId] = b
			}
		}
	}
	sort.Slice(s.aucIDs, func(i, j int) bool { return s.aucIDs[i] < s.aucIDs[j] })
	for _, b := range w.allLimitBids() {
		k := limitKey{b.DebtTokenId, b.CollateralTokenId, b.PremiumDiscount.Int64(), b.BidderAddress}.String()
		s.limit[k] = b
		s.limitKeys = append(s.limitKeys, k)
	}
	sort.Strings(s.limitKeys)
	for _, p := range w.App.NewaucKeeper.GetAllLimitBidProtocolData(ctx) {
		k := fmt.Sprintf("%d|%d", p.DebtAssetId, p.CollateralAssetId)
		s.proto[k] = p.BidValue
		s.protoKeys = append(s.protoKeys, k)
	}
	sort.Strings(s.protoKeys)
	for _, a := range w.Cdp.Assets {
		if f, found := w.App.NewaucKeeper.GetAuctionLimitBidFeeData(ctx, a.ID); found && !f.Amount.IsNil() {
			s.feeBooked[a.ID] = f.Amount
		}
		for _, app := range w.Cdp.AppIDs {
			if nf, found := w.App.CollectorKeeper.GetNetFeeCollectedData(ctx, app, a.ID); found {
				s.netFee[fmt.Sprintf("%d|%d", app, a.ID)] = nf.NetFeesCollected
			}
		}
	}
	for _, l := range w.App.LockerKeeper.GetLockers(ctx) {
		s.lockers[l.LockerId] = l
		s.lockerIDs = append(s.lockerIDs, l.LockerId)
	}
	sort.Slice(s.lockerIDs, func(i, j int) bool { return s.lockerIDs[i] < s.lockerIDs[j] })
	s.lookups = w.App.LockerKeeper.GetAllLockerLookupTable(ctx)
	if t, found := w.App.LockerKeeper.GetLockerTotalRewardsByAssetAppWise(ctx, w.Cdp.AppID, w.Cdp.Debt.ID); found && !t.TotalRewards.IsNil() {
		s.rewardTot = t.TotalRewards
	}
	s.esm = w.esmOn(w.Cdp.AppID)
	s.hist = map[uint64]auctionsV2types.AuctionHistorical{}
	for _, h := range w.App.NewaucKeeper.GetAuctionHistoricals(ctx) {
		s.hist[h.AuctionId] = h
		s.histIDs = append(s.histIDs, h.AuctionId)
	}
	sort.Slice(s.histIDs, func(i, j int) bool { return s.histIDs[i] < s.histIDs[j] })
	s.aucCtr = w.App.NewaucKeeper.GetAuctionID(ctx)
	return s
}

// auxShared caches one pre- and one post-snapshot per event for all aux oracles of a run.
type auxShared struct {
	preFor, postFor *Event
	pre, post       *auxSnap
	postHeight      int64
	postTxs         int64
}

func auxSh(w *World) *auxShared {
	if s, ok := w.X["auxshared"].(*auxShared); ok {
		return s
	}
	s := &auxShared{}
	w.X["auxshared"] = s
	return s
}

func (s *auxShared) Pre(w *World, ev *Event) *auxSnap {
	if s.preFor != ev || s.pre == nil {
		w.noteLimitMsg(ev)
		if s.post != nil && s.postFor != nil && s.postFor == s.preFor && s.postHeight == w.Height() && s.postTxs == w.Stats.Txs {
			// nothing executes between the end of one event and the start of the next: the previous post-state is this pre-state
			s.pre = s.post
		} else {
			s.pre = takeAuxSnap(w)
		}
		s.preFor = ev
		s.postFor = nil
	}
	return s.pre
}

func (s *auxShared) Post(w *World, ev *Event) *auxSnap {
	if s.postFor != ev || s.post == nil {
		s.post, s.postFor = takeAuxSnap(w), ev
		s.postHeight, s.postTxs = w.Height(), w.Stats.Txs
	}
	return s.post
}

func singleMsg(w *World, ev *Event) sdk.Msg {
	if ev.Kind != "tx" {
		return nil
	}
	msgs, err := w.DecodeMsgs(ev)
	if err != nil || len(msgs) != 1 {
		return nil
	}
	return msgs[0]
}

func (w *World) actorIdx(bech string) int {
	for i, a := range w.Actors {
		if a.Bech() == bech {
			return i
		}
	}
	return -1
}

// consumed limit bids between two snapshots (records that disappeared or shrank), grouped by bucket "debt|coll|prem".
func limitConsumed(pre, post *auxSnap) (groups map[string]int, total int) {
	groups = map[string]int{}
	for _, k := range pre.limitKeys {
		b := pre.limit[k]
		nb, still := post.limit[k]
		if !still || nb.DebtToken.Amount.LT(b.DebtToken.Amount) {
			g := fmt.Sprintf("%d|%d|%d", b.DebtTokenId, b.CollateralTokenId, b.PremiumDiscount.Int64())
			groups[g]++
			total++
		}
	}
	return groups, total
}

// ---------- observer: probes only ----------

type auxObserver struct{}

func (o *auxObserver) ID() string                 { return "aux.observer" }
func (o *auxObserver) Before(w *World, ev *Event) { auxSh(w).Pre(w, ev) }
func (o *auxObserver) After(w *World, ev *Event, res Result) *Violation {
	sh := auxSh(w)
	pre, post := sh.Pre(w, ev), sh.Post(w, ev)
	for _, id := range post.aucIDs {
		a := post.auctions[id]
		if _, was := pre.auctions[id]; !was && !a.AuctionType {
			switch post.locked[a.LockedVaultId].InitiatorType {
			case "surplus":
				w.Stats.Probe("aux.surplus_started")
			case "debt":
				w.Stats.Probe("aux.debt_started")
			}
		}
	}
	for _, id := range pre.aucIDs {
		a := pre.auctions[id]
		if _, still := post.auctions[id]; !still && !a.AuctionType && a.ActiveBiddingId != 0 {
			switch pre.locked[a.LockedVaultId].InitiatorType {
			case "surplus":
				w.Stats.Probe("aux.surplus_closed")
			case "debt":
				w.Stats.Probe("aux.debt_closed")
			}
		}
	}
	if ev.Kind == "block" {
		if _, n := limitConsumed(pre, post); n > 0 {
			w.Stats.ProbeN("aux.limit_autofill", int64(n))
		}
	}
	if post.rewardTot.GT(pre.rewardTot) {
		w.Stats.Probe("aux.locker_reward_paid")
	}
	if m, ok := singleMsg(w, ev).(*auctionsV2types.MsgPlaceMarketBidRequest); ok && res.Tx.OK() {
		if a, was := pre.auctions[m.AuctionId]; was && !a.AuctionType && a.ActiveBiddingId != 0 {
			if sb, ok := pre.standing[a.AuctionId]; ok {
				pi := w.actorIdx(sb.BidderAddress)
				if pi >= 0 && pi != ev.Actor && post.B(pi, a.DebtToken.Denom).GT(pre.B(pi, a.DebtToken.Denom)) {
					w.Stats.Probe("aux.outbid_refund")
				}
			}
		}
	}
	if len(post.lockers) > 0 {
		w.Stats.Probe("aux.lockers_open")
	}
	return nil
}

// =====================================================================================================
// C13
// =====================================================================================================

type c13Oracle struct {
	skew     map[uint64]sdk.Int // per asset id: part of (bank - recorded net fees) explained by listed findings
	reported map[string]bool
}

func newC13() *c13Oracle { return &c13Oracle{skew: map[uint64]sdk.Int{}, reported: map[string]bool{}} }

func (o *c13Oracle) ID() string                 { return "c13.books" }
func (o *c13Oracle) Before(w *World, ev *Event) { auxSh(w).Pre(w, ev) }

func (s *auxSnap) sumNet(w *World, asset uint64) (sdk.Int, bool) {
	tot, any := sdk.ZeroInt(), false
	for _, app := range w.Cdp.AppIDs {
		if v, ok := s.netFee[fmt.Sprintf("%d|%d", app, asset)]; ok {
			tot = tot.Add(v)
			any = true
		}
	}
	return tot, any
}

func (o *c13Oracle) known(sig, detail string) *Violation {
	if o.reported[sig] {
		return nil
	}
	o.reported[sig] = true
	return &Violation{Property: "C13", OracleID: "c13.fee_ledger", Signature: sig, Detail: detail, Continue: true}
}

func (o *c13Oracle) After(w *World, ev *Event, res Result) *Violation {
	if ev.Kind == "band_ack" || ev.Kind == "band_resp" {
		return nil
	}
	sh := auxSh(w)
	pre, post := sh.Pre(w, ev), sh.Post(w, ev)
	lockMod, colMod := lockertypes.ModuleName, collectortypes.ModuleName

	// ---- (1) locker books: per (app, asset) recorded total == sum of net balances, ids match, custody covers the totals
	perAsset := map[uint64]sdk.Int{}
	for _, lk := range post.lookups {
		sum := sdk.ZeroInt()
		var ids []uint64
		for _, id := range post.lockerIDs {
			l := post.lockers[id]
			if l.AppId == lk.AppId && l.AssetDepositId == lk.AssetId {
				sum = sum.Add(l.NetBalance)
				ids = append(ids, id)
			}
		}
		dep := lk.DepositedAmount
		if dep.IsNil() {
			dep = sdk.ZeroInt()
		}
		if !dep.Equal(sum) {
			return &Violation{Property: "C13", OracleID: "c13.locker_total", Signature: cmpSigInt(dep, sum) + ctxTag(ev),
				Detail: fmt.Sprintf("locker lookup (%d,%d) deposited-amount %s != sum of %d locker net balances %s, after %s", lk.AppId, lk.AssetId, dep, len(ids), sum, ev.Tag)}
		}
		have := append([]uint64(nil), lk.LockerIds...)
		sort.Slice(have, func(i, j int) bool { return have[i] < have[j] })
		if fmt.Sprint(have) != fmt.Sprint(ids) && !(len(have) == 0 && len(ids) == 0) {
			return &Violation{Property: "C13", OracleID: "c13.locker_total", Signature: "ids" + ctxTag(ev),
				Detail: fmt.Sprintf("locker lookup (%d,%d) lists lockers %v but open lockers are %v, after %s", lk.AppId, lk.AssetId, have, ids, ev.Tag)}
		}
		if cur, ok := perAsset[lk.AssetId]; ok {
			perAsset[lk.AssetId] = cur.Add(dep)
		} else {
			perAsset[lk.AssetId] = dep
		}
		if len(ids) > 0 {
			w.Stats.Probe("c13.locker_total_checked_nonempty")
		}
	}
	for _, a := range w.Cdp.Assets {
		want, ok := perAsset[a.ID]
		if !ok {
			continue
		}
		if have := post.M(lockMod, a.Denom); have.LT(want) {
			return &Violation{Property: "C13", OracleID: "c13.locker_custody", Signature: "custody<deposits" + ctxTag(ev),
				Detail: fmt.Sprintf("locker custody of %s is %s (net of unsolicited) but lockers record %s, after %s", a.Denom, have, want, ev.Tag)}
		}
	}

	// ---- (2) locker payouts: exactly the requested amount / the full net balance
	if res.Tx.OK() {
		switch m := singleMsg(w, ev).(type) {
		case *lockertypes.MsgWithdrawAssetRequest:
			if l, ok := pre.lockers[m.LockerId]; ok {
				d := w.Cdp.Debt.Denom
				if a := w.assetByID(l.AssetDepositId); a != nil {
					d = a.Denom
				}
				got := post.B(ev.Actor, d).Sub(pre.B(ev.Actor, d))
				w.Stats.Probe("c13.locker_withdraw_checked")
				if !got.Equal(m.Amount) {
					return &Violation{Property: "C13", OracleID: "c13.locker_payout", Signature: "withdraw_paid!=requested",
						Detail: fmt.Sprintf("locker %d: withdrawal of %s paid the owner %s %s", m.LockerId, m.Amount, got, d)}
				}
				if w.Actors[ev.Actor].Bech() != l.Depositor {
					return &Violation{Property: "C13", OracleID: "c13.locker_payout", Signature: "withdraw_by_non_owner",
						Detail: fmt.Sprintf("locker %d of %s: withdrawal by %s succeeded", m.LockerId, l.Depositor, w.Actors[ev.Actor].Bech())}
				}
				if m.Amount.Equal(l.NetBalance) {
					w.Stats.Probe("c13.boundary.withdraw_everything")
				}
			}
		case *lockertypes.MsgCloseLockerRequest:
			if l, ok := pre.lockers[m.LockerId]; ok {
				d := w.Cdp.Debt.Denom
				if a := w.assetByID(l.AssetDepositId); a != nil {
					d = a.Denom
				}
				got := post.B(ev.Actor, d).Sub(pre.B(ev.Actor, d))
				// savings credited inside the same transaction are part of the net balance that is paid out
				reward := pre.M(colMod, d).Sub(post.M(colMod, d))
				w.Stats.Probe("c13.locker_close_checked")
				if reward.IsNegative() || !got.Equal(l.NetBalance.Add(reward)) {
					return &Violation{Property: "C13", OracleID: "c13.locker_payout", Signature: "close_paid!=net_balance",
						Detail: fmt.Sprintf("locker %d: net balance %s (+%s savings credited in the closing tx) but the owner was paid %s %s", m.LockerId, l.NetBalance, reward, got, d)}
				}
				if _, still := post.lockers[m.LockerId]; still {
					return &Violation{Property: "C13", OracleID: "c13.locker_payout", Signature: "closed_locker_still_recorded", Detail: fmt.Sprintf("locker %d", m.LockerId)}
				}
			}
		}
	}

	// ---- (3) fee ledger: per asset, recorded net fees move exactly with the collector's observed balance
	settled := settledSince(pre, post)
	vaultDebt, vaultColl := map[uint64]bool{}, map[uint64]bool{}
	nVault, surplusClosed, debtClosed, surplusOpened := 0, 0, 0, 0
	expect := map[uint64]sdk.Int{} // what the listed findings on surplus / debt lot closes explain, per asset
	addExp := func(id uint64, v sdk.Int) {
		if cur, ok := expect[id]; ok {
			expect[id] = cur.Add(v)
		} else {
			expect[id] = v
		}
	}
	for _, h := range settled {
		if h.AuctionHistorical == nil || h.LockedVault == nil {
			continue
		}
		a := h.AuctionHistorical
		switch {
		case a.AuctionType && h.LockedVault.InitiatorType == "vault":
			nVault++
			vaultDebt[a.DebtAssetId], vaultColl[a.CollateralAssetId] = true, true
		case !a.AuctionType && h.LockedVault.InitiatorType == "surplus":
			surplusClosed++
			// the lot leaves the collector (again) and is added to the recorded net fees
			addExp(a.CollateralAssetId, a.CollateralToken.Amount.MulRaw(2).Neg())
		case !a.AuctionType && h.LockedVault.InitiatorType == "debt":
			debtClosed++
			// debt coins (Auction.DebtToken) come in, the number of gov tokens minted (Auction.CollateralToken) is recorded
			addExp(a.CollateralAssetId, a.DebtToken.Amount.Sub(a.CollateralToken.Amount))
		}
	}
	if _, kinds := openedSince(pre, post); len(kinds) > 0 {
		for _, k := range kinds {
			if k == "surplus" {
				surplusOpened++
			}
		}
	}
	diff := map[uint64]sdk.Int{}
	anyDiff := false
	for _, a := range w.Cdp.Assets {
		n0, _ := pre.sumNet(w, a.ID)
		n1, found := post.sumNet(w, a.ID)
		for _, app := range w.Cdp.AppIDs {
			if v, ok := post.netFee[fmt.Sprintf("%d|%d", app, a.ID)]; ok && v.IsNegative() {
				return &Violation{Property: "C13", OracleID: "c13.net_fees_negative", Signature: "negative" + ctxTag(ev),
					Detail: fmt.Sprintf("recorded net fees of (%d,%d) are %s after %s", app, a.ID, v, ev.Tag)}
			}
		}
		dBank := post.M(colMod, a.Denom).Sub(pre.M(colMod, a.Denom))
		d := dBank.Sub(n1.Sub(n0))
		diff[a.ID] = d
		if !d.IsZero() {
			anyDiff = true
		}
		if found && n1.IsPositive() {
			w.Stats.Probe("c13.ledger_checked_with_fees")
		}
		if dBank.IsPositive() {
			w.Stats.Probe("c13.collector_inflow_observed")
		}
		if dBank.IsNegative() {
			w.Stats.Probe("c13.collector_outflow_observed")
		}
	}
	var pending *Violation
	keep := func(v *Violation) {
		if v != nil && pending == nil {
			pending = v
		}
	}
	if anyDiff && !post.esm {
		// remove what the (exactly computed) lot-close findings explain; what is left must have the shape of the penalty finding
		rest := map[uint64]sdk.Int{}
		restAny := false
		for _, a := range w.Cdp.Assets {
			r := diff[a.ID]
			if e, ok := expect[a.ID]; ok {
				r = r.Sub(e)
			}
			rest[a.ID] = r
			if !r.IsZero() {
				restAny = true
			}
		}
		ok := true
		if restAny {
			// listed finding: the penalty of a settled V2 vault auction arrives in debt coins but is recorded under the collateral asset
			sum := sdk.ZeroInt()
			for _, a := range w.Cdp.Assets {
				r := rest[a.ID]
				sum = sum.Add(r)
				switch {
				case r.IsZero():
				case r.IsPositive() && vaultDebt[a.ID]:
				case r.IsNegative() && vaultColl[a.ID]:
				default:
					ok = false
				}
			}
			if nVault == 0 || !sum.IsZero() {
				ok = false
			}
		}
		if !ok && ev.Kind == "admin" && ev.Admin == "aux.update_lookup" && len(settled) == 0 {
			// listed finding: on a saving-rate change the collector pays accrued savings locker by locker; when the transfer fails
			// (collector already short of its recorded net fees) the error is swallowed after net fees were reduced
			debtID := w.Cdp.Debt.ID
			only := true
			for _, a := range w.Cdp.Assets {
				if a.ID != debtID && !diff[a.ID].IsZero() {
					only = false
				}
			}
			n0, _ := pre.sumNet(w, debtID)
			if only && diff[debtID].IsPositive() && pre.M(colMod, w.Cdp.Debt.Denom).LT(n0) {
				ok = true
				restAny = false
				keep(o.known("saving_rate_change_reduces_net_fees_for_savings_it_failed_to_pay",
					fmt.Sprintf("saving-rate change: recorded net fees fell by %s more than the collector paid out; %s", diff[debtID], ledgerCtx(w, pre, post))))
				w.Stats.Probe("c13.known.lsr_change_swallowed_transfer_error")
			}
		}
		if !ok {
			return &Violation{Property: "C13", OracleID: "c13.fee_ledger", Signature: "net_fees_delta!=collector_delta" + ctxTag(ev),
				Detail: fmt.Sprintf("after %s: per asset (collector balance change net of unsolicited) - (change of recorded net fees) = {%s}; not explained by the listed findings (vault auctions settled %d, surplus lots closed %d, debt lots closed %d; unexplained remainder {%s}); %s", ev.Tag, describeDiff(w, diff), nVault, surplusClosed, debtClosed, describeDiff(w, rest), ledgerCtx(w, pre, post))}
		}
		if restAny {
			keep(o.known("v2_dutch_penalty_booked_under_collateral_asset",
				fmt.Sprintf("settlement of %d V2 vault auction(s) paid the liquidation penalty into the collector in debt coins, but it was added to the recorded net fees of the *collateral* asset, which the collector does not hold: (balance change - recorded change) = {%s}", nVault, describeDiff(w, rest))))
			w.Stats.Probe("c13.known.penalty_under_collateral_asset")
		}
		if surplusClosed > 0 {
			keep(o.known("v2_surplus_close_pays_lot_from_collector_again_and_recredits_net_fees",
				fmt.Sprintf("closing %d V2 surplus lot(s) moved the lot out of the collector a second time (it had already left when the lot was created) and at the same time added it to the recorded net fees: (balance change - recorded change) = {%s}", surplusClosed, describeDiff(w, diff))))
			w.Stats.Probe("c13.known.surplus_close_double_pull")
		}
		if debtClosed > 0 && !expect[w.Cdp.Debt.ID].IsZero() {
			keep(o.known("v2_debt_close_books_minted_gov_amount_as_net_fees",
				fmt.Sprintf("closing %d V2 debt lot(s) paid the lot price into the collector in debt coins but added the number of gov tokens minted for the winner to the recorded net fees: (balance change - recorded change) = {%s}", debtClosed, describeDiff(w, diff))))
			w.Stats.Probe("c13.known.debt_close_wrong_amount")
		}
		for _, a := range w.Cdp.Assets {
			if d := diff[a.ID]; !d.IsZero() {
				if cur, ok := o.skew[a.ID]; ok {
					o.skew[a.ID] = cur.Add(d)
				} else {
					o.skew[a.ID] = d
				}
			}
		}
	}
	// an outflow at a block boundary must belong to a surplus lot
	if ev.Kind == "block" && !post.esm && surplusOpened == 0 && surplusClosed == 0 {
		d := w.Cdp.Debt.Denom
		if out := pre.M(colMod, d).Sub(post.M(colMod, d)); out.IsPositive() {
			keep(o.known("collector_pays_out_lot_at_block_boundary_without_any_auction",
				fmt.Sprintf("%s %s left the collector during block processing although no surplus lot was opened or closed (v1 auction account received %s; %s)", out, d,
					post.M(auctiontypes.ModuleName, d).Sub(pre.M(auctiontypes.ModuleName, d)), w.whitelistStr())))
			w.Stats.Probe("c13.known.outflow_without_auction")
		}
	}

	// ---- (4) backing: the collector holds at least the recorded net fees of every asset
	for _, a := range w.Cdp.Assets {
		n1, found := post.sumNet(w, a.ID)
		if !found {
			continue
		}
		inv := post.M(colMod, a.Denom).Sub(n1)
		if inv.IsNegative() {
			sk, ok := o.skew[a.ID]
			if ok && inv.Sub(sk).GTE(sdk.ZeroInt()) {
				w.Stats.Probe("c13.backing_short_only_by_listed_findings")
				continue
			}
			return &Violation{Property: "C13", OracleID: "c13.collector_custody", Signature: "custody<net_fees" + ctxTag(ev),
				Detail: fmt.Sprintf("collector holds %s %s (net of unsolicited) but records net fees %s for that asset, after %s", post.M(colMod, a.Denom), a.Denom, n1, ev.Tag)}
		}
	}
	return pending
}

func describeDiff(w *World, diff map[uint64]sdk.Int) string {
	var parts []string
	for _, a := range w.Cdp.Assets {
		if d, ok := diff[a.ID]; ok && !d.IsZero() {
			parts = append(parts, fmt.Sprintf("%s(asset %d): %s", a.Denom, a.ID, d))
		}
	}
	if len(parts) == 0 {
		return "none"
	}
	return strings.Join(parts, ", ")
}

// =====================================================================================================
// C11
// =====================================================================================================

type c11Oracle struct {
	skew     map[string]sdk.Int // per denom: part of (custody - claims) explained by listed findings
	reported map[string]bool
}

func newC11() *c11Oracle { return &c11Oracle{skew: map[string]sdk.Int{}, reported: map[string]bool{}} }

func (o *c11Oracle) ID() string                 { return "c11.bidders" }
func (o *c11Oracle) Before(w *World, ev *Event) { auxSh(w).Pre(w, ev) }

func (o *c11Oracle) known(oracle, sig, detail string) *Violation {
	if o.reported[oracle+sig] {
		return nil
	}
	o.reported[oracle+sig] = true
	return &Violation{Property: "C11", OracleID: oracle, Signature: sig, Detail: detail, Continue: true}
}

// claims on the auctionsV2 module account per denom, from the module's published records.
func (s *auxSnap) v2Claims(w *World) map[string]sdk.Int {
	c := map[string]sdk.Int{}
	add := func(d string, v sdk.Int) {
		if v.IsNil() {
			return
		}
		if cur, ok := c[d]; ok {
			c[d] = cur.Add(v)
		} else {
			c[d] = v
		}
	}
	for _, id := range s.aucIDs {
		a := s.auctions[id]
		lv, found := s.locked[a.LockedVaultId]
		if a.AuctionType {
			add(a.CollateralToken.Denom, a.CollateralToken.Amount) // unsold collateral
			if found {
				add(a.DebtToken.Denom, lv.TargetDebt.Amount.Sub(a.DebtToken.Amount)) // debt collected so far
			}
		} else if a.ActiveBiddingId != 0 {
			add(a.DebtToken.Denom, a.DebtToken.Amount) // standing bid (surplus: the bid; debt: the lot price the standing bidder paid)
		}
	}
	for _, k := range s.limitKeys {
		b := s.limit[k]
		// recorded value as is; a record driven negative by an over-withdrawal (listed finding) keeps the ledger consistent with later deposits on it
		add(b.DebtToken.Denom, b.DebtToken.Amount)
	}
	for _, a := range w.Cdp.Assets {
		if f, ok := s.feeBooked[a.ID]; ok {
			add(a.Denom, f)
		}
	}
	return c
}

func (o *c11Oracle) custodyDiff(w *World, s *auxSnap) (map[string]sdk.Int, bool) {
	claims := s.v2Claims(w)
	out := map[string]sdk.Int{}
	any := false
	for _, d := range s.denoms {
		want := sdk.ZeroInt()
		if c, ok := claims[d]; ok {
			want = c
		}
		if sk, ok := o.skew[d]; ok {
			want = want.Add(sk)
		}
		diff := s.M(auctionsV2types.ModuleName, d).Sub(want)
		out[d] = diff
		if !diff.IsZero() {
			any = true
		}
		if want.IsPositive() {
			w.Stats.Probe("c11.custody_checked_nonempty")
		}
	}
	return out, any
}

func (o *c11Oracle) absorb(s *auxSnap, diff map[string]sdk.Int) {
	for _, d := range s.denoms {
		if v, ok := diff[d]; ok && !v.IsZero() {
			if cur, ok := o.skew[d]; ok {
				o.skew[d] = cur.Add(v)
			} else {
				o.skew[d] = v
			}
		}
	}
}

func diffStr(s *auxSnap, diff map[string]sdk.Int) string {
	var parts []string
	for _, d := range s.denoms {
		if v, ok := diff[d]; ok && !v.IsZero() {
			parts = append(parts, fmt.Sprintf("%s: %s", d, v))
		}
	}
	return strings.Join(parts, ", ")
}

// feeBand returns [amount - ceil(amount*rate), amount - floor(amount*rate)] in exact arithmetic.
func feeBand(amount sdk.Int, rate sdk.Dec) (lo, hi sdk.Int) {
	n := new(big.Int).Mul(amount.BigInt(), rate.BigInt())
	q, m := new(big.Int).QuoRem(n, oneE18, new(big.Int))
	fl := sdk.NewIntFromBigInt(q)
	ce := fl
	if m.Sign() != 0 {
		ce = fl.AddRaw(1)
	}
	return amount.Sub(ce), amount.Sub(fl)
}

func (o *c11Oracle) After(w *World, ev *Event, res Result) *Violation {
	if ev.Kind == "band_ack" || ev.Kind == "band_resp" {
		return nil
	}
	sh := auxSh(w)
	pre, post := sh.Pre(w, ev), sh.Post(w, ev)
	ctx := w.Ctx()
	params, _ := w.App.NewaucKeeper.GetAuctionParams(ctx)
	var pending *Violation
	keep := func(v *Violation) {
		if v != nil && pending == nil {
			pending = v
		}
	}
	absorbAll := false // a listed finding on this event explains any custody difference
	feeObserved := sdk.ZeroInt()
	feeDenom := ""

	msg := singleMsg(w, ev)
	if msg != nil && res.Tx.OK() {
		switch m := msg.(type) {
		// ------------------------------------------------------------------ English bids
		case *auctionsV2types.MsgPlaceMarketBidRequest:
			a, was := pre.auctions[m.AuctionId]
			if !was || a.AuctionType {
				break
			}
			lv := pre.locked[a.LockedVaultId]
			kind := lv.InitiatorType
			isDebt := kind == "debt"
			w.Stats.Probe("c11.english_bid_checked")
			paid := m.Amount // surplus / generic: the bid itself is paid in
			prevBest := a.DebtToken.Amount
			if isDebt {
				paid = a.DebtToken // debt lot: every bidder pays the fixed lot price, the bid is the amount of gov tokens asked for
				prevBest = a.CollateralToken.Amount
			}
			hadBid := a.ActiveBiddingId != 0
			if hadBid {
				f := params.BidFactor.BigInt()
				lhs := new(big.Int).Mul(m.Amount.Amount.BigInt(), oneE18)
				if isDebt {
					rhs := new(big.Int).Mul(prevBest.BigInt(), new(big.Int).Sub(oneE18, f))
					if lhs.Cmp(rhs) > 0 {
						return &Violation{Property: "C11", OracleID: "c11.english_bid", Signature: "accepted_bid_does_not_improve_by_bid_factor:debt",
							Detail: fmt.Sprintf("auction %d (debt lot): accepted ask %s, previous %s, bid factor %s", a.AuctionId, m.Amount.Amount, prevBest, params.BidFactor)}
					}
					if new(big.Int).Sub(rhs, lhs).Cmp(oneE18) < 0 {
						w.Stats.Probe("c11.boundary.barely_improving_bid_accepted")
					}
				} else {
					rhs := new(big.Int).Mul(prevBest.BigInt(), new(big.Int).Add(oneE18, f))
					if lhs.Cmp(rhs) < 0 {
						return &Violation{Property: "C11", OracleID: "c11.english_bid", Signature: "accepted_bid_does_not_improve_by_bid_factor:" + kind,
							Detail: fmt.Sprintf("auction %d (%s lot): accepted bid %s, previous %s, bid factor %s", a.AuctionId, kind, m.Amount.Amount, prevBest, params.BidFactor)}
					}
					if new(big.Int).Sub(lhs, rhs).Cmp(oneE18) < 0 {
						w.Stats.Probe("c11.boundary.barely_improving_bid_accepted")
					}
				}
			}
			// outbid bidder refunded in full, new bidder charged exactly, in the same tx
			prevIdx := -1
			refund := sdk.ZeroInt()
			if hadBid {
				sb, ok := pre.standing[a.AuctionId]
				if !ok {
					return &Violation{Property: "C11", OracleID: "c11.english_bid", Signature: "standing_bid_record_missing", Detail: fmt.Sprintf("auction %d active bid %d", a.AuctionId, a.ActiveBiddingId)}
				}
				prevIdx = w.actorIdx(sb.BidderAddress)
				refund = a.DebtToken.Amount
			}
			d := paid.Denom
			if prevIdx >= 0 && prevIdx != ev.Actor {
				got := post.B(prevIdx, d).Sub(pre.B(prevIdx, d))
				if !got.Equal(refund) {
					return &Violation{Property: "C11", OracleID: "c11.english_bid", Signature: "outbid_bidder_not_refunded_in_full:" + kind,
						Detail: fmt.Sprintf("auction %d: standing bid of %s was %s %s, after being outbid the bidder received %s", a.AuctionId, w.Actors[prevIdx].Name, refund, d, got)}
				}
				w.Stats.Probe("c11.outbid_refund_checked")
			}
			charge := pre.B(ev.Actor, d).Sub(post.B(ev.Actor, d))
			wantCharge := paid.Amount
			if prevIdx == ev.Actor {
				wantCharge = wantCharge.Sub(refund)
			}
			if !charge.Equal(wantCharge) {
				return &Violation{Property: "C11", OracleID: "c11.english_bid", Signature: "bidder_charged!=bid:" + kind,
					Detail: fmt.Sprintf("auction %d: bidder should pay %s %s (net of own refund) but paid %s", a.AuctionId, wantCharge, d, charge)}
			}
			dCust := post.M(auctionsV2types.ModuleName, d).Sub(pre.M(auctionsV2types.ModuleName, d))
			if !dCust.Equal(paid.Amount.Sub(refund)) {
				return &Violation{Property: "C11", OracleID: "c11.english_bid", Signature: "custody_delta!=new_bid-old_bid:" + kind,
					Detail: fmt.Sprintf("auction %d: custody of %s changed by %s, new standing bid %s, previous %s", a.AuctionId, d, dCust, paid.Amount, refund)}
			}
			na, still := post.auctions[a.AuctionId]
			if !still || na.ActiveBiddingId == 0 {
				return &Violation{Property: "C11", OracleID: "c11.english_bid", Signature: "no_standing_bid_after_accepted_bid", Detail: fmt.Sprintf("auction %d", a.AuctionId)}
			}
			rec := na.DebtToken.Amount
			if isDebt {
				rec = na.CollateralToken.Amount
			}
			if !rec.Equal(m.Amount.Amount) {
				return &Violation{Property: "C11", OracleID: "c11.english_bid", Signature: "recorded_best_bid!=accepted_bid:" + kind,
					Detail: fmt.Sprintf("auction %d records %s, accepted bid %s", a.AuctionId, rec, m.Amount.Amount)}
			}

		// ------------------------------------------------------------------ limit bids
		case *auctionsV2types.MsgDepositLimitBidRequest:
			k := limitKey{m.DebtTokenId, m.CollateralTokenId, m.PremiumDiscount.Int64(), m.Bidder}.String()
			d0 := sdk.ZeroInt()
			if b, ok := pre.limit[k]; ok {
				d0 = b.DebtToken.Amount
			}
			nb, ok := post.limit[k]
			w.Stats.Probe("c11.limit_deposit_checked")
			paid := pre.B(ev.Actor, m.Amount.Denom).Sub(post.B(ev.Actor, m.Amount.Denom))
			if !ok || !nb.DebtToken.Amount.Sub(d0).Equal(m.Amount.Amount) || !paid.Equal(m.Amount.Amount) || nb.DebtToken.Denom != m.Amount.Denom {
				got := "none"
				if ok {
					got = nb.DebtToken.String()
				}
				return &Violation{Property: "C11", OracleID: "c11.limit_deposit", Signature: "deposit_record!=paid",
					Detail: fmt.Sprintf("deposit of %s: bidder paid %s, record went from %s to %s", m.Amount, paid, d0, got)}
			}
		case *auctionsV2types.MsgWithdrawLimitBidRequest:
			k := limitKey{m.DebtTokenId, m.CollateralTokenId, m.PremiumDiscount.Int64(), m.Bidder}.String()
			b, ok := pre.limit[k]
			if !ok {
				break
			}
			D, dd := b.DebtToken.Amount, b.DebtToken.Denom
			w.Stats.Probe("c11.limit_withdraw_checked")
			if ev.Tag == "atk.limit_withdraw" {
				w.Stats.Probe("c11.attacker_withdraw_succeeded")
			}
			// what the bidder received, per denomination
			foreign := ""
			for _, dn := range post.denoms {
				if dn != dd && post.B(ev.Actor, dn).GT(pre.B(ev.Actor, dn)) {
					foreign = dn
				}
			}
			got := post.B(ev.Actor, dd).Sub(pre.B(ev.Actor, dd))
			switch {
			case foreign != "":
				absorbAll = true
				keep(o.known("c11.limit_withdraw", "paid_in_a_denomination_that_was_not_deposited",
					fmt.Sprintf("limit bid of %s holds %s %s; a withdraw message for %s succeeded and paid the bidder %s %s out of the shared auction account", w.Actors[ev.Actor].Name, D, dd, m.Amount,
						post.B(ev.Actor, foreign).Sub(pre.B(ev.Actor, foreign)), foreign)))
			case got.GT(D) || (m.Amount.Amount.GT(D) && D.IsPositive()) || !D.IsPositive():
				absorbAll = true
				keep(o.known("c11.limit_withdraw", "paid_more_than_own_outstanding_deposit",
					fmt.Sprintf("limit bid of %s holds %s %s; a withdraw message for %s succeeded, the bidder received %s %s and the record now shows %s", w.Actors[ev.Actor].Name, D, dd, m.Amount, got, dd, recAmt(post, k))))
			default:
				lo, hi := feeBand(m.Amount.Amount, params.WithdrawalFee)
				if m.Amount.Amount.Equal(D) { // full withdrawal is a cancellation: the closing fee is the stated one
					lo2, hi2 := feeBand(m.Amount.Amount, params.ClosingFee)
					if lo2.LT(lo) {
						lo = lo2
					}
					if hi2.GT(hi) {
						hi = hi2
					}
				}
				if got.LT(lo) || got.GT(hi) {
					return &Violation{Property: "C11", OracleID: "c11.limit_withdraw", Signature: "payout!=amount_minus_stated_fee",
						Detail: fmt.Sprintf("withdraw %s of a deposit of %s: bidder received %s, expected between %s and %s", m.Amount, D, got, lo, hi)}
				}
				left := recAmt(post, k)
				if !left.Equal(D.Sub(m.Amount.Amount)) {
					return &Violation{Property: "C11", OracleID: "c11.limit_withdraw", Signature: "record_not_reduced_by_withdrawn_amount",
						Detail: fmt.Sprintf("withdraw %s of a deposit of %s: record now %s", m.Amount, D, left)}
				}
				feeObserved, feeDenom = m.Amount.Amount.Sub(got), dd
			}
		case *auctionsV2types.MsgCancelLimitBidRequest:
			k := limitKey{m.DebtTokenId, m.CollateralTokenId, m.PremiumDiscount.Int64(), m.Bidder}.String()
			b, ok := pre.limit[k]
			if !ok {
				break
			}
			D, dd := b.DebtToken.Amount, b.DebtToken.Denom
			w.Stats.Probe("c11.limit_cancel_checked")
			if !D.IsPositive() {
				absorbAll = true // record was driven non-positive by an earlier over-withdrawal (listed finding)
				break
			}
			got := post.B(ev.Actor, dd).Sub(pre.B(ev.Actor, dd))
			lo, hi := feeBand(D, params.ClosingFee)
			if got.LT(lo) || got.GT(hi) {
				return &Violation{Property: "C11", OracleID: "c11.limit_cancel", Signature: "payout!=deposit_minus_stated_fee",
					Detail: fmt.Sprintf("cancel of a deposit of %s %s: bidder received %s, expected between %s and %s", D, dd, got, lo, hi)}
			}
			if _, still := post.limit[k]; still {
				return &Violation{Property: "C11", OracleID: "c11.limit_cancel", Signature: "record_survives_cancel", Detail: k}
			}
			for _, dn := range post.denoms {
				if dn != dd && post.B(ev.Actor, dn).GT(pre.B(ev.Actor, dn)) {
					return &Violation{Property: "C11", OracleID: "c11.limit_cancel", Signature: "paid_in_foreign_denom", Detail: dn}
				}
			}
			feeObserved, feeDenom = D.Sub(got), dd
		}
	}

	// ------------------------------------------------------------------ English auctions closing (block processing)
	if ev.Kind == "block" {
		gain := map[string]sdk.Int{} // "<actor>|denom" expected
		var lotDenoms []string
		for _, id := range pre.aucIDs {
			a := pre.auctions[id]
			if _, still := post.auctions[id]; still || a.AuctionType || a.ActiveBiddingId == 0 {
				continue
			}
			sb, ok := pre.standing[id]
			if !ok {
				continue
			}
			wi := w.actorIdx(sb.BidderAddress)
			if wi < 0 {
				continue
			}
			k := bk(wi, a.CollateralToken.Denom)
			if cur, ok := gain[k]; ok {
				gain[k] = cur.Add(a.CollateralToken.Amount)
			} else {
				gain[k] = a.CollateralToken.Amount
			}
			lotDenoms = append(lotDenoms, a.CollateralToken.Denom, a.DebtToken.Denom)
			w.Stats.Probe("c11.english_close_checked")
			// every bidder of this auction other than the winner must not receive the lot
			for _, bo := range a.BiddingIds {
				bi := w.actorIdx(bo.BidOwner)
				if bi < 0 || bi == wi || bi == w.Cdp.Keeper {
					continue
				}
				if post.B(bi, a.CollateralToken.Denom).GT(pre.B(bi, a.CollateralToken.Denom)) {
					return &Violation{Property: "C11", OracleID: "c11.english_close", Signature: "lot_paid_to_a_losing_bidder",
						Detail: fmt.Sprintf("auction %d closed: winner %s, but %s also received %s", id, w.Actors[wi].Name, w.Actors[bi].Name, a.CollateralToken.Denom)}
				}
			}
		}
		if len(lotDenoms) > 0 {
			sort.Strings(lotDenoms)
			for i, d := range lotDenoms {
				if i > 0 && lotDenoms[i-1] == d {
					continue
				}
				for ai := range w.Actors {
					delta := post.B(ai, d).Sub(pre.B(ai, d))
					want, isWinner := gain[bk(ai, d)]
					if isWinner && ai != w.Cdp.Keeper {
						if !delta.Equal(want) {
							return &Violation{Property: "C11", OracleID: "c11.english_close", Signature: "winner_received!=lot",
								Detail: fmt.Sprintf("english auction(s) closed: %s should receive %s %s, balance changed by %s", w.Actors[ai].Name, want, d, delta)}
						}
					} else if delta.IsNegative() {
						return &Violation{Property: "C11", OracleID: "c11.english_close", Signature: "someone_lost_funds_at_close",
							Detail: fmt.Sprintf("english auction(s) closed: %s lost %s %s during block processing", w.Actors[ai].Name, delta.Neg(), d)}
					}
				}
			}
		}
	}

	// ------------------------------------------------------------------ recorded total of limit bids == sum of individual deposits
	sums := map[string]sdk.Int{}
	for _, k := range post.limitKeys {
		b := post.limit[k]
		pk := fmt.Sprintf("%d|%d", b.DebtTokenId, b.CollateralTokenId)
		if cur, ok := sums[pk]; ok {
			sums[pk] = cur.Add(b.DebtToken.Amount)
		} else {
			sums[pk] = b.DebtToken.Amount
		}
	}
	for _, pk := range post.protoKeys {
		rec := post.proto[pk]
		sum := sdk.ZeroInt()
		if s, ok := sums[pk]; ok {
			sum = s
		}
		if sum.IsPositive() {
			w.Stats.Probe("c11.limit_total_checked_nonempty")
		}
		if rec.Equal(sum) {
			continue
		}
		// discriminator of the listed finding: the step changed (recorded total - sum) by exactly the size of limit bids that
		// vanished during block processing (auto-fill of a bid equal to the remaining debt deletes the bid without touching the total)
		preSum := sdk.ZeroInt()
		for _, k := range pre.limitKeys {
			b := pre.limit[k]
			if fmt.Sprintf("%d|%d", b.DebtTokenId, b.CollateralTokenId) == pk {
				preSum = preSum.Add(b.DebtToken.Amount)
			}
		}
		preRec, hadRec := pre.proto[pk]
		if !hadRec {
			preRec = sdk.ZeroInt()
		}
		if rec.Sub(sum).Equal(preRec.Sub(preSum)) {
			continue // unchanged remainder of an already reported defect
		}
		if ev.Kind == "block" {
			if _, n := limitConsumed(pre, post); n > 0 && rec.Sub(sum).GT(preRec.Sub(preSum)) {
				keep(o.known("c11.limit_total", "autofill_removed_a_bid_without_reducing_the_recorded_total",
					fmt.Sprintf("book %s: recorded total %s, sum of individual limit bids %s (before the block: %s vs %s); %d bid(s) were consumed by the automatic matcher", pk, rec, sum, preRec, preSum, n)))
				w.Stats.Probe("c11.known.autofill_total_not_reduced")
				continue
			}
		}
		return &Violation{Property: "C11", OracleID: "c11.limit_total", Signature: "recorded_total!=sum_of_deposits:" + cmpSigInt(rec, sum) + ctxTag(ev),
			Detail: fmt.Sprintf("book %s: recorded total %s, sum of individual limit bids %s, after %s", pk, rec, sum, ev.Tag)}
	}

	// ------------------------------------------------------------------ custody ledger of the auctionsV2 module account
	diff, any := o.custodyDiff(w, post)
	if any {
		switch {
		case absorbAll:
			o.absorb(post, diff)
		case feeObserved.IsPositive() && onlyDenom(post, diff, feeDenom) && diff[feeDenom].Equal(feeObserved):
			// listed finding: the fee withheld from a limit-bid withdrawal / cancellation stays in the account but is not booked anywhere
			o.absorb(post, diff)
			keep(o.known("c11.custody", "limit_bid_fee_withheld_but_not_booked",
				fmt.Sprintf("%s withheld a fee of %s %s; the auction account keeps it but the booked limit-bid fees did not change", ev.Tag, feeObserved, feeDenom)))
			w.Stats.Probe("c11.known.fee_not_booked")
		case ev.Kind == "block" && staleAutofill(pre, post):
			o.absorb(post, diff)
			keep(o.known("c11.custody", "autofill_of_several_limit_bids_overwrites_auction_record",
				fmt.Sprintf("several limit bids of one bucket were matched against one auction in one block; afterwards custody - claims = {%s}: the auction record only reflects the last fill", diffStr(post, diff))))
			w.Stats.Probe("c11.known.stale_autofill")
		default:
			return &Violation{Property: "C11", OracleID: "c11.custody", Signature: "custody!=claims" + ctxTag(ev),
				Detail: fmt.Sprintf("auctionsV2 account after %s: balance (net of unsolicited) minus (unsold dutch collateral + dutch debt collected + standing english bids + limit-bid deposits + booked fees) = {%s}", ev.Tag, diffStr(post, diff))}
		}
	}
	return pending
}

func recAmt(s *auxSnap, k string) sdk.Int {
	if b, ok := s.limit[k]; ok {
		return b.DebtToken.Amount
	}
	return sdk.ZeroInt()
}

func onlyDenom(s *auxSnap, diff map[string]sdk.Int, d string) bool {
	for _, dn := range s.denoms {
		if dn != d && !diff[dn].IsZero() {
			return false
		}
	}
	return true
}

// staleAutofill: at least two limit bids of one (debt, collateral, premium) bucket were consumed in one block.
func staleAutofill(pre, post *auxSnap) bool {
	groups, _ := limitConsumed(pre, post)
	for _, g := range sortedKeys(groups) {
		if groups[g] >= 2 {
			return true
		}
	}
	return false
}

func (w *World) whitelistStr() string {
	wl, found := w.App.NewliqKeeper.GetLiquidationWhiteListing(w.Ctx(), w.Cdp.AppID)
	return fmt.Sprintf("liquidation whitelisting of the app: found=%v english_activated=%v", found, found && wl.IsEnglishActivated)
}

func ledgerCtx(w *World, pre, post *auxSnap) string {
	d := w.Cdp.Debt.Denom
	n0, _ := pre.sumNet(w, w.Cdp.Debt.ID)
	n1, _ := post.sumNet(w, w.Cdp.Debt.ID)
	return fmt.Sprintf("debt asset: collector %s -> %s, recorded net fees %s -> %s, locker custody %s -> %s, locker savings paid so far %s -> %s",
		pre.M(collectortypes.ModuleName, d), post.M(collectortypes.ModuleName, d), n0, n1, pre.M(lockertypes.ModuleName, d), post.M(lockertypes.ModuleName, d), pre.rewardTot, post.rewardTot)
}
