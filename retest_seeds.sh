#!/bin/bash
# ./retest_seeds.sh [tier] [seed names...]   (default: every seed under seeded/, quick tier)
# Re-runs the simulator checks recorded in each seed's meta.json against the scratch worktree /tmp/mut-me with the seed
# applied (sources from $VDIR/sim, default /tmp/vdev) and updates caught_by_<tier> / violation_signatures in meta.json.
# /repo and /verif/evidence are not touched.
tier=${1:-quick}; shift
VDIR=${VDIR:-/tmp/vdev}
# scratch copy of /verif (so that /verif/evidence and /verif/replays are left alone); created on first use, remove it afterwards
[ -d "$VDIR" ] || { mkdir -p "$VDIR" && rsync -a --exclude .git --exclude replays --exclude bin /verif/ "$VDIR"/; }
W=${W:-/tmp/mut-me}
export GOFLAGS=-mod=mod GOPROXY=off GOSUMDB=off GOTOOLCHAIN=local
cd /verif
names="$*"; [ -z "$names" ] && names=$(ls seeded | grep '^C[0-9]')
[ -d $W ] || git -C /repo worktree add -q --detach $W HEAD
for n in $names; do
  d=seeded/$n
  [ -f $d/patch.diff ] || continue
  git -C $W checkout -q --detach $(git -C /repo rev-parse HEAD) 2>/dev/null
  git -C $W checkout -- . ; git -C $W clean -fdq
  if ! git -C $W apply "$(realpath $d/patch.diff)" 2>/dev/null; then echo "RETEST $n patch_does_not_apply"; continue; fi
  checks=$(python3 -c "import json;m=json.load(open('$d/meta.json'));print(' '.join(m.get('checks_run',[m['property']])))")
  res=""
  for id in $checks; do
    out=$(cd $VDIR && REPO=$W ./check "$id" $tier 2>&1); rc=$?
    res="$res
$(echo "$out" | egrep "^violation" | cut -c1-200)
EXIT $id $rc"
  done
  git -C $W checkout -- . ; git -C $W clean -fdq
  python3 - "$d/meta.json" "$tier" <<PY
import json,sys,re
res='''$res'''
p,tier=sys.argv[1],sys.argv[2]
m=json.load(open(p))
exits=dict(re.findall(r'EXIT (C\d+) (\d+)',res))
sigs={}
for s in re.findall(r'violation (C[0-9L]+ \[[a-z0-9_.]+\] [^:]*)',res): sigs[s]=sigs.get(s,0)+1
m['caught_by_'+tier]=any(v=='1' for v in exits.values())
m['check_exit_codes_'+tier]=exits
m['violation_signatures']='; '.join(f"{v}x {k}" for k,v in sorted(sigs.items(),key=lambda x:-x[1])[:4])
m.pop('check_exit_2',None)
json.dump(m,open(p,'w'),indent=1)
print('RETEST',m['name'],tier,'CAUGHT' if m['caught_by_'+tier] else ('EXIT2' if '2' in exits.values() else 'MISSED'),exits,m['violation_signatures'][:160])
PY
done
