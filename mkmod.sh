#!/bin/bash
# Generates /verif/sim/go.mod from /repo/go.mod (same requirements and replaces, plus replace comdex => /repo).
set -e
REPO=${REPO:-/repo}
cd "$(dirname "$0")/sim"
python3 - "$REPO" <<'PY'
import sys,re
repo=sys.argv[1]
s=open(repo+'/go.mod').read()
s=re.sub(r'^module .*$', 'module comdexverif', s, count=1, flags=re.M)
s+='\nrequire github.com/comdex-official/comdex v0.0.0\nreplace github.com/comdex-official/comdex => '+repo+'\n'
open('go.mod','w').write(s)
PY
cp "$REPO/go.sum" go.sum
