#!/bin/bash
# ./run_seed.sh <seed-dir> [tier] [check ids...]
# Applies <seed-dir>/patch.diff to /repo, runs the given checks (default: the property in meta.json), records
# exit codes, and ALWAYS restores /repo (git checkout -- . && git clean of untracked files the patch added).
# Never commits anything in /repo.
set -u
seed="$1"; shift
tier="${1:-quick}"; shift || true
cd "$(dirname "$0")" || exit 2
if [ ! -f "$seed/patch.diff" ]; then echo "no patch.diff in $seed"; exit 2; fi
if [ -n "$(git -C /repo status --porcelain)" ]; then echo "/repo is not clean; refusing"; exit 2; fi
restore() { git -C /repo checkout -- . ; git -C /repo clean -fdq; }
trap restore EXIT
if ! git -C /repo apply "$(realpath "$seed/patch.diff")"; then echo "patch does not apply"; exit 2; fi
ids="$*"
if [ -z "$ids" ]; then ids=$(python3 -c "import json,sys; print(json.load(open('$seed/meta.json'))['property'])" 2>/dev/null); fi
rc_all=0
for id in $ids; do
  out=$(./check "$id" "$tier" 2>&1); rc=$?
  echo "$out" | egrep "^runs=|^OK|^VIOLATION|^violation|vacuous|BUILD FAILED" | cut -c1-300 | sort | uniq -c | sort -rn | head -6
  echo "SEED $(basename "$seed") check=$id tier=$tier exit=$rc"
  [ $rc -ne 0 ] && rc_all=$rc
done
exit $rc_all
