#!/usr/bin/env python3
# Regenerates /verif/seeded/README.md from the meta.json files.
import json,glob,os
rows=[]
for f in sorted(glob.glob('/verif/seeded/*/meta.json')):
    m=json.load(open(f))
    rd=os.path.join(os.path.dirname(f),'README.md')
    desc=''
    if os.path.exists(rd):
        for l in open(rd):
            l=l.strip()
            if l and not l.startswith('#'):
                desc=l[:160]; break
    rows.append((m['name'],m['property'],'yes' if m['demo']['passes_without_patch'] and m['demo']['fails_with_patch'] else 'NO','yes' if m['existing_tests_of_touched_packages_pass_with_patch'] else 'NO', m.get('caught_by','quick' if m['caught_by_quick'] else 'MISSED'), m['violation_signatures'][:140].replace('|','/'), m.get('note','')))
out=['# Seeded changes (from fresh sub-agents that saw only the property record and a scratch worktree)','',
'Each directory: `patch.diff`, `demo_test.go` (fails with the patch, passes without), `README.md` (the seeding agent\'s description: what it needs to manifest), `meta.json` (what was run here and the outcome).','',
'| seed | property | demo verified | existing pkg tests pass | caught by | violation signatures (count) | note |','|---|---|---|---|---|---|---|']
for r in rows: out.append('| '+' | '.join(r)+' |')
open('/verif/seeded/README.md','w').write('\n'.join(out)+'\n')
print('\n'.join(out[-len(rows):]))
