#!/bin/bash
# ./sweep.sh [tier] [ids...] : runs the checks one after the other on /repo as it stands; prints one line per check
cd "$(dirname "$0")"
tier=${1:-quick}; shift
ids="$*"; [ -z "$ids" ] && ids="C01 C02 C03 C04 C05 C06 C07 C08 C09 C10 C11 C12 C13 C14 C15 C16 C17 C18 C19 C20"
for id in $ids; do
  t0=$(date +%s)
  out=$(./check $id $tier 2>&1); rc=$?
  echo "$id $tier exit=$rc $(( $(date +%s)-t0 ))s $(echo "$out" | egrep '^VIOLATION|^violation|vacuous|watchdog|BUILD' | cut -c1-200 | head -3 | tr '\n' ' ')"
done
